#!/usr/bin/env python3
"""freeze the function/method inventory of the reference tree (current /repo)
into rpsa/inventory.json - helpers not listed there are treated as freshly
extracted and are inlined in the normalised view"""
import os, sys, json
HERE = os.path.dirname(os.path.dirname(os.path.abspath(__file__)))
sys.path.insert(0, HERE)
from rpsa.model import Program
from rpsa.normalize import make_inventory
inv = make_inventory(Program('/repo'))
json.dump(inv, open(os.path.join(HERE, 'rpsa', 'inventory.json'), 'w'), indent=0, sort_keys=True)
print(sum(len(v) for v in inv.values()), 'functions in', len(inv), 'modules')
