#!/usr/bin/env python3
"""Record the held-out detection of freshly collected changes: run all quick
checks against seeded/<pid>-<variant> for the given variants and store the
outcome under meta['heldout'] (once; later strengthening does not overwrite
it - tools/seedmatrix.py only rewrites meta['checks']).

usage: tools/heldout.py <round label> <pid> <variant> [<variant> ...]
"""
import os, sys, json, subprocess
HERE = os.path.dirname(os.path.dirname(os.path.abspath(__file__)))
label, pid, variants = sys.argv[1], sys.argv[2], sys.argv[3:]
for v in variants:
    sd = os.path.join(HERE, 'seeded', '%s-%s' % (pid, v))
    mp = os.path.join(sd, 'meta.json')
    meta = json.load(open(mp))
    if 'heldout' in meta and '--force' not in sys.argv:
        print(pid, v, 'already recorded:', meta['heldout']['own'])
        continue
    r = subprocess.run([sys.executable, os.path.join(HERE, 'tools', 'seedcheck.py'),
                        os.path.join(sd, 'patch.diff'), '--json'],
                       stdout=subprocess.PIPE, stderr=subprocess.STDOUT, text=True)
    res = None
    for line in r.stdout.splitlines():
        if line.startswith('JSON:'):
            res = json.loads(line[5:])
    if res is None:
        print(pid, v, 'seedcheck failed', r.stdout[-300:])
        continue
    fired = {p: st for p, (st, items) in res.items() if st != 'ok'}
    rules = sorted({i[0] for p, (st, items) in res.items()
                    if st == 'VIOLATION' for i in items if i[0]})
    head = subprocess.run(['git', '-C', HERE, 'rev-parse', '--short', 'HEAD'],
                          stdout=subprocess.PIPE, text=True).stdout.strip()
    meta['heldout'] = {'round': label, 'verif_commit_before': head,
                       'own': fired.get(pid, 'silent'),
                       'others': {p: st for p, st in fired.items() if p != pid},
                       'rules': rules}
    json.dump(meta, open(mp, 'w'), indent=1)
    print(pid, v, meta['heldout'])
