#!/usr/bin/env python3
"""Re-run all quick checks against every kept seeded change (and every kept
behaviour-preserving refactoring) and write the catch matrix into DESIGN.md
(between the SEED-MATRIX markers) and into each meta.json."""
import os, sys, json, re
HERE = os.path.dirname(os.path.dirname(os.path.abspath(__file__)))
sys.path.insert(0, HERE); sys.path.insert(0, os.path.join(HERE, 'tools'))
import seedcheck

import subprocess
from concurrent.futures import ThreadPoolExecutor
only = [a for a in sys.argv[1:] if not a.startswith('--')]


def one(patch):
    r = subprocess.run([sys.executable, os.path.join(HERE, 'tools', 'seedcheck.py'),
                        patch, '--json'], stdout=subprocess.PIPE,
                       stderr=subprocess.STDOUT, text=True)
    for line in r.stdout.splitlines():
        if line.startswith('JSON:'):
            return {p: (st, [tuple(i) for i in items])
                    for p, (st, items) in json.loads(line[5:]).items()}
    raise SystemExit('seedcheck failed for %s: %s' % (patch, r.stdout[-400:]))


dirs = [d for d in sorted(os.listdir(os.path.join(HERE, 'seeded')))
        if os.path.exists(os.path.join(HERE, 'seeded', d, 'patch.diff'))
        and (not only or any(d.startswith(o) for o in only))]
with ThreadPoolExecutor(int(os.environ.get('JOBS', '16'))) as ex:
    results = dict(zip(dirs, ex.map(
        one, [os.path.join(HERE, 'seeded', d, 'patch.diff') for d in dirs])))
rows = []
for d in dirs:
    sd = os.path.join(HERE, 'seeded', d)
    patch = os.path.join(sd, 'patch.diff')
    pid = d.split('-')[0]
    res = results[d]
    fired = {p: (st, items) for p, (st, items) in res.items() if st != 'ok'}
    own = fired.get(pid)
    rules = sorted({r for p, (st, items) in fired.items() for r, l, m in items
                    if st == 'VIOLATION' and r})
    meta_p = os.path.join(sd, 'meta.json')
    meta = json.load(open(meta_p)) if os.path.exists(meta_p) else {}
    meta.setdefault('checks', {})
    meta['checks']['caught_by_own_property'] = bool(own and own[0] == 'VIOLATION')
    meta['checks']['status'] = {p: st for p, (st, _) in fired.items()}
    meta['checks']['fired'] = {p: [(r, m) for r, l, m in items] for p, (st, items) in fired.items()}
    json.dump(meta, open(meta_p, 'w'), indent=1)
    what = ''
    notes = os.path.join(sd, 'notes.md')
    kind = meta.get('kind', 'break')
    ho = meta.get('heldout', {})
    held = ho.get('own', '')
    if held and ho.get('others'):
        held += ' (+' + ','.join(sorted(p for p, st in ho['others'].items()
                                        if st == 'VIOLATION')) + ')' \
            if any(st == 'VIOLATION' for st in ho['others'].values()) else ''
    rows.append((d, kind, held, 'VIOLATION' if own and own[0] == 'VIOLATION' else (own[0] if own else 'silent'),
                 ', '.join('%s' % p for p in sorted(fired) if p != pid and fired[p][0] == 'VIOLATION'),
                 ', '.join(rules)))
if only:
    # partial run: merge the fresh rows into the rows already in DESIGN.md
    _s = open(os.path.join(HERE, 'DESIGN.md')).read()
    _a, _b = '<!-- SEED-MATRIX-BEGIN -->', '<!-- SEED-MATRIX-END -->'
    _old = {}
    for _l in _s[_s.index(_a):_s.index(_b)].splitlines():
        if re.match(r'\| C\d\d-', _l):
            _c = tuple(x.strip() for x in _l.strip().strip('|').split('|'))
            if len(_c) == 6:
                _old[_c[0]] = _c
    for r in rows:
        _old[r[0]] = r
    rows = [_old[k] for k in sorted(_old)]
out = ['| change | kind | own check when collected (held-out) | own check now | other checks firing now | rules |', '|---|---|---|---|---|---|']
for r in rows:
    out.append('| %s | %s | %s | %s | %s | %s |' % r)
n_break = [r for r in rows if r[1] == 'break']
n_caught = [r for r in n_break if r[3] == 'VIOLATION']
n_ref = [r for r in rows if r[1] == 'refactoring']
n_ref_silent = [r for r in n_ref if r[3] == 'silent' and not r[4]]
summary = ('%d of %d seeded breaking changes are reported as VIOLATION by the check of their own property '
           '(%d more only as ANALYSIS-ERROR/exit 2); %d of %d behaviour-preserving refactorings leave every check silent.'
           % (len(n_caught), len(n_break), len([r for r in n_break if r[3] == 'ANALYSIS-ERROR']),
              len(n_ref_silent), len(n_ref)))
text = summary + '\n\n' + '\n'.join(out) + '\n'
# held-out detection per round (from meta['heldout'], all kept changes)
import collections
ho = collections.OrderedDict()
for d in sorted(os.listdir(os.path.join(HERE, 'seeded'))):
    mp = os.path.join(HERE, 'seeded', d, 'meta.json')
    if not os.path.exists(mp):
        continue
    m = json.load(open(mp))
    h = m.get('heldout')
    if not h or h.get('note', '').startswith('not held out'):
        continue
    kind = m.get('kind', 'break')
    r = ho.setdefault(h['round'], collections.Counter())
    if kind == 'break':
        r['break'] += 1
        r['break:' + h['own']] += 1
    else:
        r['ref'] += 1
        clean = h['own'] == 'silent' and not any(
            v != 'ok' for v in h.get('others', {}).values())
        r['ref:clean' if clean else 'ref:not'] += 1
hlines = ['| round | breaking changes | caught by own check | only ANALYSIS-ERROR | silent | refactorings | all 20 checks silent |',
          '|---|---|---|---|---|---|---|']
for rnd, c in sorted(ho.items()):
    hlines.append('| %s | %d | %d | %d | %d | %d | %d |' % (
        rnd, c['break'], c['break:VIOLATION'], c['break:ANALYSIS-ERROR'],
        c['break:silent'], c['ref'], c['ref:clean']))
htext = ('Held-out detection when each change was collected (before any '
         'strengthening for it):\n\n' + '\n'.join(hlines) + '\n')
dp = os.path.join(HERE, 'DESIGN.md')
s = open(dp).read()
ha, hb = '<!-- HELDOUT-BEGIN -->', '<!-- HELDOUT-END -->'
if ha in s:
    s = s[:s.index(ha) + len(ha)] + '\n' + htext + s[s.index(hb):]
a, b = '<!-- SEED-MATRIX-BEGIN -->', '<!-- SEED-MATRIX-END -->'
if a in s:
    s = s[:s.index(a) + len(a)] + '\n' + text + s[s.index(b):]
    open(dp, 'w').write(s)
print(summary)
for r in rows:
    if (r[1] == 'break' and r[3] != 'VIOLATION') or (r[1] == 'refactoring' and (r[3] != 'silent' or r[4])):
        print('  ', r)
