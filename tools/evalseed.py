#!/usr/bin/env python3
"""Confirm a seeded change and run the checks against it.

usage: tools/evalseed.py <prop id> <variant dir>   e.g.  C03 /tmp/seed_out/C03/a
 1. unchanged scratch worktree: demo must pass (exit 0)
 2. patch applied: the 95 baseline tests still pass, demo must fail
 3. all quick checks against the patched tree (tools/seedcheck)
 4. --keep: copy to /verif/seeded/<id>-<name>/ with meta.json
"""
import os, sys, json, subprocess, shutil, re, xml.etree.ElementTree as ET
HERE = os.path.dirname(os.path.dirname(os.path.abspath(__file__)))
sys.path.insert(0, HERE)
sys.path.insert(0, os.path.join(HERE, 'tools'))
import seedcheck
WT = seedcheck.WT
PY = '/venv/bin/python'


def sh(cmd, **k):
    return subprocess.run(cmd, shell=True, stdout=subprocess.PIPE,
                          stderr=subprocess.STDOUT, text=True, **k)


def run_demo(demo, pid):
    src = open(demo).read()
    for base in ('/tmp/seed8', '/tmp/seed7', '/tmp/seed6', '/tmp/seed5', '/tmp/seed4', '/tmp/seed3', '/tmp/seed2', '/tmp/seed'):
        src = src.replace('%s/%s' % (base, pid), WT)
    tmp = '/tmp/evalseed_demo_%d.py' % os.getpid()
    open(tmp, 'w').write(src)
    is_pytest = bool(re.search(r'^def test_|^class Test', src, re.M)) and \
        '__main__' not in src
    cmd = 'cd %s && PYTHONPATH=%s/src timeout 300 %s %s %s' % (
        WT, WT, PY, '-m pytest -q -p no:cacheprovider -x' if is_pytest else '',
        tmp)
    r = sh(cmd)
    return r.returncode, r.stdout[-600:]


def baseline():
    out = '/tmp/evalseed_junit_%d.xml' % os.getpid()
    sh('cd %s && PYTHONPATH=%s/src %s -m pytest -q -p no:cacheprovider '
       '--timeout=900 --continue-on-collection-errors --junitxml=%s'
       % (WT, WT, PY, out))
    base = set(json.load(open('/root/.vp/BASELINE.json'))['stable_pass'])
    ok = set()
    for tc in ET.parse(out).iter('testcase'):
        if not any(c.tag in ('failure', 'error', 'skipped') for c in tc):
            ok.add('%s::%s' % (tc.get('classname'), tc.get('name')))
    sh('rm -f %s/rm_info.json' % WT)
    return sorted(base - ok)


def main():
    pid, vdir = sys.argv[1], sys.argv[2].rstrip('/')
    keep = '--keep' in sys.argv
    name = os.path.basename(vdir)
    patch = os.path.join(vdir, 'patch.diff')
    demo = os.path.join(vdir, 'demo.py')
    if not os.path.exists(demo):
        cands = [f for f in os.listdir(vdir) if f.endswith('.py')]
        demo = os.path.join(vdir, cands[0]) if cands else None
    res = {'property': pid, 'variant': name}
    seedcheck.prepare(None)
    rc0, out0 = run_demo(demo, pid)
    res['demo_unchanged_rc'] = rc0
    seedcheck.prepare(patch)
    miss = baseline()
    res['baseline_missing'] = miss
    rc1, out1 = run_demo(demo, pid)
    res['demo_changed_rc'] = rc1
    fired = seedcheck.run(patch)
    res['fired'] = {p: [(r, m) for r, l, m in items]
                    for p, (st, items) in fired.items() if st != 'ok'}
    res['status'] = {p: st for p, (st, items) in fired.items() if st != 'ok'}
    valid = rc0 == 0 and rc1 != 0 and not miss
    res['valid'] = valid
    res['caught'] = pid in res['fired'] and res['status'][pid] == 'VIOLATION'
    res['caught_by_other'] = sorted(p for p in res['fired'] if p != pid and
                                    res['status'][p] == 'VIOLATION')
    print(json.dumps({k: res[k] for k in ('property', 'variant', 'valid',
          'demo_unchanged_rc', 'demo_changed_rc', 'baseline_missing',
          'caught', 'caught_by_other', 'status')}, indent=1))
    for p, items in res['fired'].items():
        for r, m in items[:3]:
            print('   %s %s: %s' % (p, r, m[:150]))
    if not valid:
        print('--- demo unchanged tail:\n%s\n--- demo changed tail:\n%s'
              % (out0[-300:], out1[-300:]))
    if keep and valid:
        dst = os.path.join(HERE, 'seeded', '%s-%s' % (pid, name))
        os.makedirs(dst, exist_ok=True)
        shutil.copy(patch, os.path.join(dst, 'patch.diff'))
        shutil.copy(demo, os.path.join(dst, os.path.basename(demo)))
        if os.path.exists(os.path.join(vdir, 'notes.md')):
            shutil.copy(os.path.join(vdir, 'notes.md'),
                        os.path.join(dst, 'notes.md'))
        notes = ''
        if os.path.exists(os.path.join(vdir, 'notes.md')):
            notes = open(os.path.join(vdir, 'notes.md')).read()
        meta = {
            'property': pid,
            'variant': name,
            'breaks': 'see notes.md',
            'needs_to_manifest': 'see notes.md',
            'confirmed': {
                'what_was_run': [
                    'scratch worktree of /repo HEAD (fix: commits included), '
                    'demo with unchanged tree: exit %d' % rc0,
                    'git apply patch.diff; pinned suite: all 95 baseline '
                    'tests still pass; demo: exit %d' % rc1,
                    'tools/seedcheck.py patch.diff (all 20 quick checks '
                    'against the patched tree)'],
            },
            'checks': {'caught_by_own_property': res['caught'],
                       'fired': res['fired'], 'status': res['status']},
        }
        json.dump(meta, open(os.path.join(dst, 'meta.json'), 'w'), indent=1)
        print('kept in', dst)
    seedcheck.prepare(None)


if __name__ == '__main__':
    main()
