#!/usr/bin/env python3
"""Run all checks against /repo with one patch applied (in a scratch worktree,
so /repo itself and the evidence files are not touched) and report which
properties/rules fire.

usage: tools/seedcheck.py <patch.diff> [--props C01,C03] [--tier quick]
"""
import os, sys, json, subprocess, io, contextlib, time
HERE = os.path.dirname(os.path.dirname(os.path.abspath(__file__)))
sys.path.insert(0, HERE)
WT = os.environ.get('EVALWT') or '/tmp/evalwt_%d' % os.getpid()


def _cleanup():
    if os.path.isdir(WT) and not os.environ.get('EVALWT'):
        subprocess.run(['git', '-C', '/repo', 'worktree', 'remove', '--force',
                        WT], stdout=subprocess.DEVNULL,
                       stderr=subprocess.DEVNULL)
        subprocess.run(['git', '-C', '/repo', 'worktree', 'prune'],
                       stdout=subprocess.DEVNULL, stderr=subprocess.DEVNULL)


import atexit
atexit.register(_cleanup)


def sh(*a, **k):
    return subprocess.run(a, stdout=subprocess.PIPE, stderr=subprocess.STDOUT,
                          text=True, **k)


def prepare(patch):
    if not os.path.isdir(WT):
        for attempt in range(20):
            r = sh('git', '-C', '/repo', 'worktree', 'add', '-q', '--detach',
                   WT, 'HEAD')
            if not r.returncode:
                break
            time.sleep(0.3 + 0.1 * attempt)   # concurrent worktree adds
        if r.returncode:
            raise SystemExit(r.stdout)
    sh('git', '-C', WT, 'checkout', '-q', '--detach',
       sh('git', '-C', '/repo', 'rev-parse', 'HEAD').stdout.strip())
    sh('git', '-C', WT, 'checkout', '-q', '--', '.')
    sh('git', '-C', WT, 'clean', '-fdq')
    if patch:
        r = sh('git', '-C', WT, 'apply', patch)
        if r.returncode:
            raise SystemExit('patch does not apply: %s' % r.stdout)


def run(patch, props=None, tier='quick'):
    from rpsa.main import run_consensus
    from rpsa.model import Program, AnalysisError
    from rpsa.report import load_known, norm
    prepare(patch)
    man = json.load(open(os.path.join(HERE, 'MANIFEST.json')))
    ids = props or [c['property_id'] for c in man['checks']]
    known = load_known().get('known', [])
    prog = Program(WT)
    out = {}
    for pid in ids:
        try:
            rep = run_consensus(pid, tier, WT, quiet=True, prog=prog)
            new = []
            for f in rep.findings:
                if any(k['property'] == pid and k.get('rule') == f.rule and
                       k.get('where') == f.where and
                       norm(k.get('construct', '')) == f.construct
                       for k in known):
                    continue
                new.append(f)
            out[pid] = ('VIOLATION', [(f.rule, f.loc, f.message[:160])
                                      for f in new]) if new else ('ok', [])
        except AnalysisError as e:
            out[pid] = ('ANALYSIS-ERROR', [('', '', str(e)[:200])])
        except Exception as e:                               # noqa
            out[pid] = ('CRASH', [('', '', repr(e)[:200])])
    return out


if __name__ == '__main__':
    args = sys.argv[1:]
    patch = args[0] if args and not args[0].startswith('--') else None
    props = None
    if '--props' in args:
        props = args[args.index('--props') + 1].split(',')
    t0 = time.time()
    res = run(patch, props)
    if '--json' in args:
        print('JSON:' + json.dumps(res))
        sys.exit(0)
    for pid, (st, items) in sorted(res.items()):
        if st != 'ok':
            for rule, loc, msg in items:
                print('%s %s %s %s: %s' % (pid, st, rule, loc, msg))
    print('fired: %s   (%.1fs)' % (','.join(p for p, (s, _) in sorted(
        res.items()) if s != 'ok') or '-', time.time() - t0))
