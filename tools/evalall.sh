#!/bin/sh
# evaluate every finished seed variant under /tmp/seed_out that is not yet in /verif/seeded
cd "$(dirname "$0")/.."
for d in /tmp/seed_out/C*/[ab]; do
  [ -f $d/patch.diff ] || continue
  pid=$(basename $(dirname $d)); v=$(basename $d)
  [ -d seeded/$pid-$v ] && [ "$1" != "--force" ] && continue
  echo "=== $pid-$v"
  /venv/bin/python tools/evalseed.py $pid $d --keep 2>&1 | grep -v conda | grep -E '"valid"|"caught"|caught_by_other|^   C|baseline_missing|demo_' | tr -d '\n' ; echo
done
