#!/bin/sh
# usage: tools/keep8.sh - validate and keep the round-8 held-out changes under /tmp/seed8/out/<pid>/k{1,2}
# (one demo.py per variant); records held-out detection (tools/heldout.py round8) for every kept one.
cd "$(dirname "$0")/.."
ls -d $(for p in ${PIDS:-C*}; do echo /tmp/seed8/out/$p/k*; done) 2>/dev/null | while read d; do
  [ -f $d/patch.diff ] && [ -f $d/demo.py ] && echo $d
done | xargs -P ${JOBS:-8} -I{} sh -c '
  d={}; p=$(basename $(dirname $d)); v=$(basename $d)
  [ -d seeded/$p-$v ] && exit 0
  out=$(/venv/bin/python tools/evalseed.py $p $d --keep 2>&1 | grep -v conda)
  echo "$p $v $(echo "$out" | grep -E "\"valid\"|\"caught\"|demo_.*rc|kept" | tr -d "\n" | tr -s " ")"
  echo "$out" > /tmp/seed8/out/$p/$v/eval.log
  [ -d seeded/$p-$v ] && /venv/bin/python tools/heldout.py round8 $p $v 2>&1 | grep -v conda | cut -c1-200
'
