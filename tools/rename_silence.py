#!/usr/bin/env python3
"""silence test: alpha-rename every local variable (not parameters) in every
function of the package; behaviour is unchanged, so no check may report a new
violation.  ANALYSIS-ERROR (unrecognised idiom) is reported separately."""
import os, sys, ast, json
HERE = os.path.dirname(os.path.dirname(os.path.abspath(__file__)))
sys.path.insert(0, HERE)
from rpsa.model import Program, PKG, AnalysisError
from rpsa.main import run_property

SUFFIX = sys.argv[1] if len(sys.argv) > 1 else '_rn'


def params_of(fn):
    a = fn.args
    out = {x.arg for x in a.posonlyargs + a.args + a.kwonlyargs}
    if a.vararg: out.add(a.vararg.arg)
    if a.kwarg: out.add(a.kwarg.arg)
    return out


def rename_function(fn):
    stored, excl = set(), set(params_of(fn))
    for n in ast.walk(fn):
        if isinstance(n, ast.Name) and isinstance(n.ctx, (ast.Store, ast.Del)):
            stored.add(n.id)
        elif isinstance(n, (ast.FunctionDef, ast.AsyncFunctionDef, ast.ClassDef)) and n is not fn:
            excl.add(n.name)
            if not isinstance(n, ast.ClassDef):
                excl |= params_of(n)
        elif isinstance(n, ast.Lambda):
            excl |= params_of(n)
        elif isinstance(n, (ast.Global, ast.Nonlocal)):
            excl |= set(n.names)
        elif isinstance(n, ast.ExceptHandler) and n.name:
            excl.add(n.name)
        elif isinstance(n, ast.alias):
            excl.add((n.asname or n.name).split('.')[0])
    todo = {x for x in stored - excl if not x.startswith('__')}
    for n in ast.walk(fn):
        if isinstance(n, ast.Name) and n.id in todo:
            n.id = n.id + SUFFIX


def transform(src):
    tree = ast.parse(src)
    for n in tree.body:
        if isinstance(n, (ast.FunctionDef, ast.AsyncFunctionDef)):
            rename_function(n)
        elif isinstance(n, ast.ClassDef):
            for m in n.body:
                if isinstance(m, (ast.FunctionDef, ast.AsyncFunctionDef)):
                    rename_function(m)
    out = ast.unparse(tree) + '\n'
    compile(out, 'x', 'exec')
    return out


root = '/repo'
pk = os.path.join(root, PKG)
overlay = {}
for dp, dn, fn in os.walk(pk):
    for f in fn:
        if f.endswith('.py'):
            full = os.path.join(dp, f)
            overlay[os.path.relpath(full, pk)] = transform(open(full, encoding='utf-8').read())
base = Program(root)
var = Program(root, overlay=overlay)
bad = 0
for c in json.load(open(os.path.join(HERE, 'MANIFEST.json')))['checks']:
    pid = c['property_id']
    if os.environ.get('ONLY') and pid not in os.environ['ONLY'].split(','):
        continue
    try:
        a = {f.key for f in run_property(pid, prog=base, quiet=True).findings}
        rb = run_property(pid, prog=var, quiet=True)
        rb.verify_minimums()
        new = [f for f in rb.findings if f.rule + f.where not in {k.split('|')[1] + k.split('|')[2] for k in a}]
        status = 'silent' if not new else 'FALSE-ALARM ' + '; '.join('%s %s: %s' % (f.rule, f.where.split('::')[-1], f.message[:120]) for f in new[:4])
    except AnalysisError as e:
        status = 'ANALYSIS-ERROR %s' % str(e)[:200]
    except Exception as e:
        import traceback
        status = 'CRASH %r' % e
    if status != 'silent':
        bad += 1
    print(pid, status)
sys.exit(1 if bad else 0)
