#!/usr/bin/env python3
"""Evaluate behaviour-preserving refactorings: tools/evalrefac.py [--keep]
for every /tmp/refac_out/C*/r*/patch.diff not yet kept: apply in the scratch
worktree, 95 baseline tests must pass, run all quick checks; any VIOLATION is
a false alarm, ANALYSIS-ERROR is brittleness."""
import os, sys, json, glob, shutil
HERE = os.path.dirname(os.path.dirname(os.path.abspath(__file__)))
sys.path.insert(0, HERE); sys.path.insert(0, os.path.join(HERE, 'tools'))
import seedcheck, evalseed
keep = '--keep' in sys.argv
only = [a for a in sys.argv[1:] if not a.startswith('--')]
for patch in sorted(glob.glob(os.environ.get('REFAC_GLOB', '/tmp/refac_out/C*/r*/patch.diff'))):
    vdir = os.path.dirname(patch)
    pid = os.path.basename(os.path.dirname(vdir)); name = os.path.basename(vdir)
    tag = '%s-%s' % (pid, name)
    if only and tag not in only and pid not in only:
        continue
    dst = os.path.join(HERE, 'seeded', tag)
    if os.path.isdir(dst) and '--force' not in sys.argv:
        continue
    if os.path.getsize(patch) == 0:
        print(tag, 'EMPTY PATCH'); continue
    try:
        seedcheck.prepare(patch)
    except SystemExit as e:
        print(tag, 'PATCH DOES NOT APPLY', str(e)[:100]); continue
    miss = evalseed.baseline()
    res = seedcheck.run(patch)
    fired = {p: (st, items) for p, (st, items) in res.items() if st != 'ok'}
    status = 'silent' if not fired else ' '.join('%s:%s' % (p, st) for p, (st, _) in sorted(fired.items()))
    print(tag, 'baseline_missing=%d' % len(miss), status)
    for p, (st, items) in sorted(fired.items()):
        for r, l, m in items[:2]:
            print('     %s %s %s %s' % (p, st, r, m[:170]))
    if keep and not miss:
        os.makedirs(dst, exist_ok=True)
        shutil.copy(patch, os.path.join(dst, 'patch.diff'))
        if os.path.exists(os.path.join(vdir, 'notes.md')):
            shutil.copy(os.path.join(vdir, 'notes.md'), os.path.join(dst, 'notes.md'))
        json.dump({'property': pid, 'variant': name, 'kind': 'refactoring',
                   'breaks': 'nothing: behaviour-preserving refactoring of the anchored code (see notes.md)',
                   'needs_to_manifest': 'n/a',
                   'confirmed': {'what_was_run': ['git apply in a scratch worktree of /repo HEAD; pinned suite: all 95 baseline tests pass',
                                                  'tools/seedcheck.py patch.diff (all 20 quick checks against the patched tree)']},
                   'checks': {'status': {p: st for p, (st, _) in fired.items()},
                              'fired': {p: [(r, m) for r, l, m in items] for p, (st, items) in fired.items()}}},
                  open(os.path.join(dst, 'meta.json'), 'w'), indent=1)
seedcheck.prepare(None)
