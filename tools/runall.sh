#!/bin/sh
# run every registered check (quick or thorough) and summarise
tier=${1:-quick}
cd "$(dirname "$0")/.."
for p in $(python3 -c "import json;print(' '.join(c['property_id'] for c in json.load(open('MANIFEST.json'))['checks']))"); do
  s=$(date +%s.%N)
  out=$(./check $p --tier $tier 2>&1); rc=$?
  e=$(date +%s.%N)
  printf "%s rc=%d %.1fs %s\n" $p $rc $(echo "$e - $s" | bc) "$(echo "$out" | tail -1 | cut -c1-110)"
  echo "$out" | grep -E "^VIOLATION|ANALYSIS-ERROR|SELFTEST-" | head -5
done
