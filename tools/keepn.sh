#!/bin/sh
# usage: tools/keep4.sh C09 [C10 ...] - validate and keep the round-4 changes of ${SEEDOUT:-/tmp/seed4/out}/<pid>
# (g1..g6 share one demo.py that takes the variant name as argument; r7, r8 refactorings)
cd "$(dirname "$0")/.."
for p in "$@"; do
  for v in ${VARS:-g1 g2 g3 g4 g5 g6}; do
    d=${SEEDOUT:-/tmp/seed4/out}/$p/$v
    [ -f $d/patch.diff ] || continue
    python3 - "$p" "$v" "${SEEDOUT:-/tmp/seed4/out}" <<'P'
import sys, re
p, v, OUT = sys.argv[1], sys.argv[2], sys.argv[3]
src = open(OUT + '/%s/demo.py' % p).read()
fut = ''.join(l for l in src.splitlines(True) if l.startswith('from __future__'))
src = ''.join(l for l in src.splitlines(True) if not l.startswith('from __future__'))
open(OUT + '/%s/%s/demo.py' % (p, v), 'w').write(
    fut + "import sys as _sys\n_sys.argv = [_sys.argv[0], '%s']\n" % v + src)
notes = OUT + '/%s/notes.md' % p
import os, shutil
if os.path.exists(notes):
    shutil.copy(notes, OUT + '/%s/%s/notes.md' % (p, v))
P
    EVALWT=${EVALWT:-/tmp/evalwt_main} /venv/bin/python tools/evalseed.py $p $d --keep 2>&1 | grep -v conda | grep -E '"valid"|kept|demo_' | tr '\n' ' '; echo
  done
  REFAC_GLOB="${SEEDOUT:-/tmp/seed4/out}/$p/r*/patch.diff" EVALWT=${EVALWT:-/tmp/evalwt_main} /venv/bin/python tools/evalrefac.py --keep 2>&1 | grep -v conda | grep baseline
done
