#!/bin/sh
# usage: tools/keep3.sh C09 [C10 ...]  - validate and keep the round-3 changes of /tmp/seed3/out/<pid>
cd "$(dirname "$0")/.."
for p in "$@"; do
  for v in e f; do
    EVALWT=/tmp/evalwt_main /venv/bin/python tools/evalseed.py $p /tmp/seed3/out/$p/$v --keep 2>&1 | grep -v conda | grep -E '"valid"|kept|demo' | tr '\n' ' '; echo
  done
  REFAC_GLOB="/tmp/seed3/out/$p/r*/patch.diff" EVALWT=/tmp/evalwt_main /venv/bin/python tools/evalrefac.py --keep 2>&1 | grep -v conda | grep baseline
done
