#!/usr/bin/env python3
"""regenerate /verif/MANIFEST.json from the table below"""
import json, os
HERE = os.path.dirname(os.path.dirname(os.path.abspath(__file__)))

# id -> (technique, level text, level note, design ref)
CHECKS = {
 'C01': ('ownership + must-pass-through + control-dependence rules on AST/CFG (single writer of occupancy, grant=>mark, pick guards, cursor advance)',
         'Static structural analysis of the scheduler sources: decides the named necessary conditions (single writer of node occupancy, every granting path marks the slots found, every start is a grant, the search tests each kind it debits, free/share guards on every pick, cursor/tally advanced between picks, blocked=DOWN before filtering, agent nodes moved) on every path/site of the anchored functions. It does not decide the behaviour for all numeric inputs.',
         'Trusted: ru.lazy_bisect partition contract; no monkey patching; aliasing by reference propagation only. Not decided: slots_per_node arithmetic, overlapping application-supplied placements (known finding K1), real interleavings.',
         'DESIGN.md section 5 / C01'),
 'C02': ('count-discipline, paired-update and dependence rules on CFG/def-use of the per-node search and schedule_task',
         'Static structural analysis: a slot is appended only past a count-reached test for each kind it picks, picking stops at the requested number, short lists only when partial, remaining-count/collected-list updated and reset together, complete-placement return, search arguments and slot fields derive from the matching request attributes, ranks_per_node bounds the per-node search, colocate membership guard. Necessary conditions on every path of the anchored functions; not the correctness of the chosen indices.',
         'Scope Continuous/ContinuousJsrun. Not decided: numeric adequacy, index choice for every occupancy. R02.3 asserts are information only.',
         'DESIGN.md section 5 / C02'),
 'C03': ('symmetric-update, ownership and pairing rules (mirror of every debit, grant key = release key, counter writers, release-loop coverage)',
         'Static structural analysis: every debit in _change_slot_states / Node.allocate_slot has a mirrored credit under the mirrored condition; unschedule_task frees exactly task[slots] with FREE; _active_cnt is written only by grant (+1 on every granting path, also for pre-placed tasks) and release (-1 once per queued task, every queued task released); the unschedule message reaches and is kept by the scheduler loop; roll-back of partial application-level searches. Decides these necessary conditions on all paths of the anchors, not the run-time history.',
         'Trusted: zmq pubsub delivers each unschedule message once. Not decided: NUMA-domain lfs path (alias reasoning over run-time objects), thread interleavings.',
         'DESIGN.md section 5 / C03'),
 'C04': ('effect counting over CFG path enumeration (exactly one outcome per task per loop iteration), control-dependence of the never-schedulable raise, ordering and def-use of the wake-up flag',
         'Static analysis of the scheduling loop: on every path through the intake loop, the placement loop, the wait-pool insertion/cancel check, the wait-pool triage and the consumption of the three lazy_bisect results each task gets exactly one outcome (hand-on xor retention); the "can never be scheduled" raise is control dependent on _active_cnt == 0 (and the counter discipline R03.3 holds); priorities are iterated descending; a release re-enables the wait pool pass; cancel of waiting tasks removes and reports together. Decides loss/duplication per path, not timing or starvation freedom.',
         'Trusted: ru.lazy_bisect partition contract; effect calls atomic. Not decided: starvation freedom, "as soon as" (timing).',
         'DESIGN.md section 5 / C04'),
 'C07': ('path enumeration with (publication, hand-on, outcome) counting per finishing region; lock-region test-and-remove dominance; must-pass ordering',
         'Static analysis of the Popen and NOOP executors: on every path of cancel_task, of one watcher iteration plus the bulk finish, of the per-task error handlers, of the NOOP collector and of the late-cancel path, unschedule publications equal hand-ons in {0,1} with the outcome recorded first; both contenders (cancel, watcher) reach their finish effects only through a locked test-and-remove on the same registry with the same lock; registration precedes launch; execution start is announced once per bulk; the process handle precedes the watch queue and the late cancel check; the timeout watcher goes through cancel_task. Argues exactly-once by lock discipline and single removal, not by exploring thread schedules.',
         'Trusted: effect calls atomic; is_canceled hands on CANCELED exactly when true. Not decided: real thread schedules; Flux/Dragon executors. Known finding K2 (late cancel double hand-on).',
         'DESIGN.md section 5 / C07'),
 'C08': ('dependence of every removal/kill on the request uids, guard polarity of membership tests and filters, publisher/handler key-set agreement',
         'Static analysis of the cancel path: the cancel list grows only by arg[uids] of cancel_tasks messages; is_canceled reports and hands on only the given task when its uid is in the list; the intake filter keeps exactly the not-canceled things; the scheduler forwards the uids to its process, removes waiting tasks keyed by the requested uid together with their CANCELED report, filters the raptor backlog by uid; the executor cancels only get_task(uid) for requested uids; cancel_task kills the pid of the task it was given, frees once (arbitration R07.2) and records CANCELED; keys read by handlers are written by the publisher which sets fwd=True. Decides selection-by-uid and polarity at every site, not global delivery histories.',
         'Trusted: uids unique; pubsub delivers the control message. Not decided: whether os.killpg reaches the processes; timing of arrival beyond the per-stage rules.',
         'DESIGN.md section 5 / C08'),
 'C09': ('effect (purity) analysis over resolved self-calls, dependence closure from the placement to the returned command, interface/table completeness',
         'Static analysis of the 13 launch-method classes of the factory table: no history-dependent store to self.* that flows into a command (the command depends only on the task at hand); the returned command and written host/rank files depend on the node names/indices of task[slots]; a launcher whose command does not depend on the rank count refuses multi-rank tasks (comparison evaluated for n=2..9); every class provides the five query methods, can_launch returns a 2-tuple on every path, find_launcher iterates the configured order and returns at the first acceptance. May-depend, not the option semantics of each MPI flavour.',
         'Trusted: ru.create_hostfile writes what it is given. Not decided: flavour-specific option semantics and the format options of files written by radical.utils helpers (seeded changes C09-g4 / C09-j2: `impaired=True` dropped from create_hostfile - not caught, DESIGN section 9). Known findings K3a/K3b (APRun, CCMRun ignore the placement).',
         'DESIGN.md section 5 / C09'),
 'C10': ('table-driven def-use of every RP_* export, taint of arguments/environment values through the quoter, reachability order of script sections',
         'Static analysis of the script generators: each RP_* export is fed by the source frozen in the table (ids, sandboxes, per-rank figures, control addresses from addr_pub/addr_sub); every element of td[arguments] reaches the command only through ru.sh_quote; section order of the exec and launch scripts (env, rank ids, task env, pre_exec, exec, post_exec; cd, launcher env, pre_launch, launch with stdout/stderr redirect, post_launch), exit-code capture directly after the command, the per-rank switch covers range(n_ranks). Decides the Python side only.',
         'Trusted: ru.sh_quote quotes one word. Not decided: what bash does with the text. Known finding K4 (environment values unquoted).',
         'DESIGN.md section 5 / C10'),
 'C12': ('one-outcome-per-path counting in the binding loops, reaching definitions of the pilot handed to _assign_pilot, drain/ownership rules of the pools, guard sets of the backfilling candidates',
         'Static analysis of the three client-side schedulers: the pilot bound to a task derives from the added-pilot list (written only by add/remove_pilots); every task gets exactly one outcome per path (forwarded xor kept); pools whose content is forwarded are drained on that path (incl. early-bound tasks); _assign_pilot precedes every hand-on to input staging; backfilling candidates are guarded by role==ADDED, the state window and used<hwm; usage is credited and debited by the same expression, debit once per uid; round-robin index wrapped before use and advanced once per assignment.',
         'Not decided: interleavings of control and state messages; inner loops explored with one iteration.',
         'DESIGN.md section 5 / C12'),
 'C13': ('control dependence with polarity of the FAILED update on pilot-final, task.pilot == pid and task non-final; callback registration coverage',
         'Static analysis of TaskManager._pilot_state_cb / add_pilots: the FAILED update of a task is control dependent (right polarity) on the pilot being final, on the task being bound to that pilot and on the task not being final, and the explanation is built from the pilot id; the callback is registered on every added pilot.',
         'Guards moved into unresolvable helpers give exit 2, never a violation.',
         'DESIGN.md section 5 / C13'),
 'C15': ('decision table of the requested-state normalisation (reaching definitions), loop-exit analysis of the polling loops against final states and timeout, return-value provenance',
         'Static analysis of Task.wait, Pilot.wait, TaskManager.wait_tasks, PilotManager.wait_pilots: the state set reaching the polling loop is FINAL / [state] / state for the three argument shapes; no infinite path through the loop once the awaited entities are final or the timeout expired; every return yields a current .state read. "Shortly after" is decided only as a bound on the poll period: its least upper bound over all rounds is at most 1 s (ten times the period of the tree; a period that grows without a cap is unbounded).',
         'Not decided: real timing (scheduling delays, duration of callbacks); the 1 s reading of "shortly after" is an assumption of the check stated in DESIGN 8.3.',
         'DESIGN.md section 5 / C15'),
 'C17': ('exhaustive table check: every shipped resource config x schema (merge mirrored from get_resource_config) against factory tables extracted from the AST; def-use agreement of job and agent sinks in _prepare_pilot',
         'Static, exhaustive over all shipped resource_*.json entries and schemas (63 resources, 120 pairs today): after the same merge get_resource_config performs and a mirror of the typed verify(), resource manager, launch methods, order, scheduler, spawner and agent config resolve through the factory tables (extracted from the impl dict literals and local imports) to classes that exist; component kinds and bridges of the agent/tmgr/pmgr/session configs resolve; in _prepare_pilot job and agent receive the same core/gpu/node figures, the divisor depends on SMT and blocked lists, the node count is ceil/max-combined. Minimality of the node count for all numeric inputs is not decided.',
         'Trusted: ru.dict_merge/TypedDict semantics as mirrored. Not decided: minimal node count for every numeric input.',
         'DESIGN.md section 5 / C17'),
 'C18': ('ownership (every RM builds node_list through _get_node_list on all paths), must-pass and dominance rules on _filter_nodes/_init_from_scratch/__init__',
         'Static analysis of the 9 resource managers of the factory table and the base class: node_list is assigned from _get_node_list (unique enumerate index, configured core/GPU vectors) on every path to return and nowhere else; reduction to the requested size, agent/service nodes popped (moved), raising emptiness test passed by every return; registry written after _init_from_scratch (which filters) and the read path does not filter again. Node-file parsing for arbitrary contents is not decided.',
         'Not decided: node file parsing for arbitrary contents.',
         'DESIGN.md section 5 / C18'),
 'C11': ('finite-domain path feasibility over the six action constants (admitted => handled), table/backend completeness, branch subsumption, context-table def-use',
         'Static analysis of the four stagers, the staging helper and the directive expansion: every action admitted by a stager intake filter reaches a staging effect in its handler (decided per action constant); client and agent side together cover all actions; handle_staging_directive runs a same-named facade operation for every accepted action, each facade method delegates to a backend method with an effect; >> and << are tested before > and <, each branch splits at the token it tested; the eight src/tgt context tables feed each schema key from its own task entry with the documented pwd; output stagers skip directives of non-DONE tasks unless stage_on_error. Does not decide file contents or remote transfers.',
         'Not decided: file contents, remote transfer. Known findings K5 (SAGA backend stubs).',
         'DESIGN.md section 5 / C11'),
 'C14': ('state-table well-formedness, ownership of Pilot._state/_update, abstract interpretation of the final-cause definitions through stop()/finalize, file-name contract with bootstrap_0.sh',
         'Static analysis of states.py, pilot.py, pilot_manager.py and agent_0.py: the pilot state table is well formed and ordered like the pipeline; Pilot._update is driven only by _update_pilot under current==target or inside the loop over the passed states, unknown pilots return first; every literal assigned to _final_cause survives to finalize (no unconditional overwrite on any path through stop()); finalize maps timeout->DONE, cancel->CANCELED, anything else->FAILED in both the signal file and the final advance; the signal file written is the one bootstrap_0.sh reads, with a FAILED default; every pilot notification of a bulk update is applied.',
         'Not decided: the bootstrapper shell beyond the file-name contract; delivery timing.',
         'DESIGN.md section 5 / C14'),
 'C16': ('predicate abstraction / exhaustive path enumeration of the forwarder callback over (from_proxy, origin present, origin own, fwd) compared with the specification decision table; wiring table; default flags',
         'Static: the decision table extracted from the CFG of the pubsub forwarder (12 consistent atom combinations, assignments as kills) equals the specification table - from the proxy publish iff the origin is another side, to the proxy publish iff fwd and origin own/absent, exactly one put of the tagged message; each local channel is wired to its PROXY_ twin in both directions with from_proxy true exactly on the PROXY_ source; agent-side advances default fwd=True, client-side False, cancel requests set fwd. The exactly-once argument for the specification table is by hand (DESIGN R16.1); the check decides that the code is that table.',
         'Trusted: zmq pubsub delivery. Not decided: message loss/duplication inside zmq.',
         'DESIGN.md section 5 / C16'),
 'C19': ('symbolic run of each alias block, finite evaluation of the mode table, codec inverse pairing, path-sensitive key provenance in the slot converters, producer/consumer key agreement',
         'Static analysis of TaskDescription/PilotDescription._verify, the serializer, PythonTask and the slot converters: each deprecated-attribute block moves the value to the documented replacement and leaves the old attribute falsy/untouched (idempotent, nothing lost); the mode -> required attribute table is enforced and every description key a raptor dispatcher reads unguarded is defaulted or required for that mode; serialize/deserialize pairs compose inverse primitives in reverse order, encoder keys cover what the decoder reads, no None default is unpacked with * / **; both slot converters carry every Slot key from the same input key on every path. Equality of values after a round trip and pickling of arbitrary callables are not decided.',
         'Trusted: ru.TypedDict honours _schema/_defaults. Not decided: value equality after round trips.',
         'DESIGN.md section 5 / C19'),
 'C20': ('lock-region coverage of every _resources access, alloc/dealloc symmetry, result-producer/consumer table, AST interpretation of the dispatchers (return code/exception constants per path), save/restore in finally',
         'Static analysis of the raptor worker and master: every access to the worker resource map is inside `with self._rlock`; marks are guarded by a free test of the same cell and recorded in task[slots], _dealloc frees exactly those; all three result producers feed the queue whose single consumer deallocates before reporting, error and timeout paths report a non-zero code with the exception; Master._result_cb maps exit code 0 to DONE and anything else to FAILED with one hand-on per call; executable tasks are routed to the agent path, everything else to the workers, the scheduler forwards iff raptor_id and not worker and not seen; in the func/eval/exec dispatchers stdio and environment are saved before mutation and restored in finally, success returns (0, no exception), failure a non-zero code and the exception. Process-level races with the timeout path are not decided.',
         'Not decided: process-level races between _worker_proc and the timeout path.',
         'DESIGN.md section 5 / C20'),
 'C06': ('state-table well-formedness by constant folding, ownership of Task._state/_update, guard dominance (sticky finals, single step) with flow-sensitive operand origins, exception-edge isolation in the batch loop, replay-loop pairing',
         'Static analysis of states.py, task.py and task_manager.py: the task state table is a linear order (contiguous non-final values, X_PENDING directly before X, finals share the maximum, stage order = pipeline order); Task._state is written only by __init__ and _update, _update is called only from the replay loop and the guarded pilot-death callback; in _update the DONE/FAILED early return and the single-step test (target - current != 1 raises) dominate the write; _task_state_progress raises on two finals before comparing values, returns empty lists without progress and builds range(current+1, target)+[target]; in the batch loop the raising calls are caught per notification, known states skipped, each passed state applied through _update and announced exactly once after the loop. Decides these guards on all paths, not the value semantics beyond them.',
         'Trusted: pubsub invokes the state callback once per message. Not decided: what application callbacks do.',
         'DESIGN.md section 5 / C06'),
 'C05': ('route-table agreement over all components (producer state/queue vs consumer), outcome tables by control dependence, exception-edge analysis of the component loop and the per-task handlers, hand-on counting with callee summary',
         'Static analysis over all components: every pushing hand-on to a non-final state has an output row in its component and a consumer with an existing worker on the same (state, queue) - a missing row is a silently dropped task; exit code 0 <=> DONE, anything else FAILED with exit code and exception recorded; the client takes the final state from target_state and FAILED from its handler; a raising worker fails its things with the exception recorded and the component loop survives; all four stagers isolate failures per task, record the exception on that task and fail only that task; the client output stager hands each task on exactly once; FAILED/CANCELED advances record target_state, are published and never pushed, the agent hands the full task back. Decides these per-component necessary conditions, not the composition under arbitrary delivery orders.',
         'Trusted: zmq queues deliver what is put into them; effect calls atomic. Not decided: composition of ten components under arbitrary message orders.',
         'DESIGN.md section 5 / C05'),
}

# clauses added by the seed campaigns (DESIGN 8.3); appended to the level text
EXTRA = {
 'C01': ' Also: the slot count of a node is capped by free lfs/mem whenever that kind is requested; the DOWN marker survives the conversion of node occupancy into RO objects; every occupancy store uses the same kind for target, amount and guard; blocked cores/GPUs are marked whenever their own list is non-empty; the application-level roll-back and release address the node the slot names.',
 'C02': ' Also: colocate filter and history recording agree on which tag values count as a tag; the remaining-rank counter is decremented by the length of the list that extends the allocation; every stored placement comes from schedule_task of that task or from its own description; slots cut as slices carry a length test; Node.find_slot picks each kind from its own pool against its own request field; a failed placement never returns true from _try_allocation.',
 'C03': ' Also: no failure point after an occupancy write of the same slot without roll-back; once the arbitration removed the uid every path releases the task; signed / operator-valued updates evaluated per direction; lists drained by a thread are read and reset in one critical section.',
 'C04': ' Also: abstract evaluation of the loop flags (from a release every path reaches the wait-pool pass before the next reclaim); a true is_canceled answer is preceded by the CANCELED hand-on; a request is refused only when strictly larger than what a node offers; cancel of waiting tasks decided by value flow (pop / get+del, helpers, comprehensions).',
 'C05': ' Also: error discipline of every per-thing except handler (FAILED, exception recorded first, no non-final hand-on unless guarded by the task outcome); park/release pairing of early-bound tasks; the sticky-final rules of C06, the exit-code table of the raptor master and the forward flag of agent-side advances are re-evaluated here; the replayed state list stays non-empty and ends with the target. Known findings K6a-c (FAILED without recorded exception in three handlers).',
 'C06': ' Also: for every final current state caller guards plus Task._update refusals cover it (evaluated over the state constants); _task_state_progress is history independent and evaluated for all state pairs; nothing removes callbacks on the dispatch path; the dispatcher passes its own task and state to every callback.',
 'C07': ' Also: after the spawn every normal return has put the task on the queue the watcher drains; whoever removes the uid finishes the task; arbitration recognised through helper methods and atomic pop; lists drained by the timeout watcher / collector are read and reset in one critical section; the launcher cancel escalates to SIGKILL.',
 'C08': ' Also: the post-insert cancel check of the wait pool is unconditional; a scalar uid is wrapped not iterated; the cancel list only grows outside its initialisation; no statement drops a whole priority level; poll() results are compared with None; the ownership rule of C07 is re-evaluated here.',
 'C09': ' Also: launcher selection is history independent; shape of the rank count (no average over de-duplicated nodes, no node count as rank count, host files that name each node once carry multiplicity); find_launcher tests the verdict element of can_launch; files are opened truncating; id cursors advance by the number of ids used.',
 'C10': ' Also: every described pre/post command is guarded by itself on the reconstructed script text; rp_error exits with a non-zero literal and the scripts exit with the captured status; no element of arguments/environment is filtered away and the environment export is not control dependent on named_env; the per-rank switch is on when any entry is a dict; each of stdout/stderr is normalised by a test on itself.',
 'C11': ' Also: ordered dispatch by substring containment over if-chains and literal tables; an exception of a staging operation leaves the per-task handler; tarball member names and extraction root agree; every backend operation reaches its file-system effect on every non-raising path; results of shell call-outs are tested (fixed F22).',
 'C12': ' Also: a pilot record is created only when none exists; the key of the early pool and the pilot handed to _assign_pilot denote the same pilot; usage is debited only beyond AGENT_EXECUTING and for every final state; cached session sandbox URLs are not changed through an alias.',
 'C13': ' Also: no guard on the way to the FAILED update tests membership in a table another method shrinks; no uncaught foreign callback before the pilot-specific callbacks; the registered callback is not taken off a pilot outside close; the notified state is written before the callbacks run; Task._update copies the attributes the callback tests; the bulk and replay rules of C14 are re-evaluated here.',
 'C14': ' Also: _update_pilot evaluated on every (current, notified) pair against the replay specification and for unknown pilots; a recorded final cause survives every later stop(); the scheduler-side pilot record keeps the later of recorded and notified state; the bootstrapper reads the final-state file under file tests only (block model of the shell text).',
 'C15': ' Also: the check list only shrinks; one clock per timeout comparison, NOW minus START; who wakes an event-driven wait; hand-over of the timeout between wait anchors; the earliest requested state bounds wait_tasks. Known findings K7a-c (membership polling misses transient requested states).',
 'C16': ' Also: side identity separates the pilots; who may wire, exactly once per side; message-class defaults agree with the forwarder presence test; the value compared with the origin is the value stamped; each advertised proxy channel takes its endpoints from its own bridge.',
 'C17': ' Also: rounding direction and max-combination on the def-use chain to the node count; resolution and sizing do not write to objects that outlive the call; the schema merged is the requested one (default only when none was requested).',
 'C18': ' Also: iteration domain and guards of the blocked-resource marking; slot-count filter vs cpn override; RMInfo attributes that size the node entries are final when the entries are built; non-uniform node files are refused; registry key written = key read; threads_per_core reaches the tuple count; separator-cursor arithmetic of the vnode parser.',
 'C19': ' Also: the mapping that was normalised reaches the base constructor with the highest precedence; alias guards pass for every set value of the deprecated attribute; every payload entry the decoder reads comes from a caller-supplied parameter; RO keywords get the part of their own name/position; each kind is converted independently of the other.',
 'C20': ' Also: routing table over the request modes (three-valued evaluation); all-or-nothing allocation; register before hand-on; kind tested free = kind marked = kind recorded; the raptor backlog accumulates.',
}
# clauses added by the rules of rounds 5 to 7 (DESIGN 8.3)
EXTRA2 = {
 'C01': ' Rounds 5-7: a store fed by a loop variable lies inside that loop; a position in Node.cores/gpus that is occupied comes from a look-up that compared the entry index with the requested index.',
 'C02': ' Rounds 5-7: application-supplied slots pass the BUSY marking before the hand-on; with a zero core count no path of NodeList.find_slots reaches find_slot; nobody removes from the colocate history.',
 'C03': ' Rounds 5-7: the index a pick records addresses the element that was tested; every node binding that _change_slot_states writes through has passed the index comparison with the slot.',
 'C04': ' Rounds 5-7: a tag option closes its node skip at the default; with partial set _find_resources leaves before the search only for a reason that rules out one slot; is_canceled decided also for fall-off and result-local forms.',
 'C05': ' Rounds 5-7: sub-queue names of producer and consumer agree; things collected in a loop are read again on every path; a hand-on inside a loop hands on a different thing each iteration; every normal path from the work_cb handler of the work loop returns to the loop head.',
 'C06': ' Rounds 5-7: the state subscriber hands every notification of a bulk on (evaluated on concrete messages); no test on the path to the progress function depends on earlier iterations of the batch.',
 'C07': ' Rounds 5-7: every watcher iteration polls; one bucket per task and origin; kills sit under an OSError handler; the start announcement is handed on through exactly one bucket.',
 'C08': ' Rounds 5-7: the hand-over test of _control_cb holds for every scheduler and executor class (including any()/all() forms); a request loop is not left for one element; the cancel branch visits every queue of the raptor backlog.',
 'C09': ' Rounds 5-7: constants compared with case-folded strings are fixed points; no partial aggregate appended inside the filling loop; a configured fallback cannot make the derivation dead; within one launcher configuration no path of a placed task ends without a node name while another ends with one.',
 'C10': ' Rounds 5-7: per-rank switch on when any entry is a dict; the rank variable exported by every launcher is the one the script switches on; exported variables are defined before the lines that reference them; stdout/stderr names followed through tables and helpers.',
 'C11': ' Rounds 5-7: description-only keys are read through the description; per-task isolation without re-raise; each context of Pilot.stage_in/out is fed by the getter of the side it completes; the path argument reaches the URL without a call that drops a trailing slash.',
 'C12': ' Rounds 5-7: every added pilot document is stored; index selection guarded by non-emptiness of that list; command constants of publisher and handler agree; the reschedule flag accumulates and the debit path reaches the reschedule; published pilot list equals the stored one; a sandbox cache that depends on the pilot uid is keyed by it.',
 'C13': ' Rounds 5-7: every registered callback is invoked; the state write is decided per (final target, current) pair over the folded state tables; one registry entry per callable.',
 'C14': ' Rounds 5-7: one record object per pilot; a whole pilot record is stored/deleted only where the table holds none for that key; a cancel cause is recorded only on paths that took the this-pilot-is-named branch.',
 'C15': ' Rounds 5-7: the two clock reads of the timeout test do not cancel; a returned state read from a memo is as fresh as the memo fill; the least upper bound of the poll period over all rounds is at most 1 s (stated reading of "shortly after").',
 'C16': ' Rounds 5-7: compared value = stamped value; proxy table per channel; a message that must travel takes fwd/origin from defaults or constants, never from the message it answers; update flag decided per state.',
 'C17': ' Rounds 5-7: schema key is the requested one; the package\'s own verification hooks and the raise/assert statements of get_resource_config are evaluated on every shipped resource x schema pair; caches of configurations are keyed by every parameter with deep copies in and out.',
 'C18': ' Rounds 5-7: guards of the marking, uniformity refusal, registry key agreement, threads per core reach the count, cursor arithmetic, a refusal is not swallowed; run sizes of an unsorted groupby are accumulated; the accessible-node append is reached with probe outcome 0 only; the raw host string is used unexpanded only under guards excluding "," and "[".',
 'C19': ' Rounds 5-7: alias guards over the value domain, payload provenance, RO field agreement, kinds converted independently, fast paths decided by the whole list, retry handler breadth; a memo of encoded payloads is keyed by every parameter; an as_dict override converts nested typed dictionaries.',
 'C20': ' Rounds 5-7: returncode read after wait; the wake-up depends only on the table; membership test and access on the same table; route tables of list references followed by reference; setdefault/update stores into the backlog do not drop requests.',
}

SHARED = ' Shared rule Rnn.S on the anchor files: sibling fragments that differ by one systematic renaming apply it at every aligned position (forgot-to-rename).'

PENDING = 'check not built yet in this round (static rules designed in DESIGN.md section 5); not claimed until the checker exists'
NA = {}

def main():
    props = [json.loads(l) for l in open(os.path.join(HERE, 'properties.jsonl'))]
    checks, na = [], []
    for p in props:
        pid = p['id']
        if pid in CHECKS:
            tech, text, note, ref = CHECKS[pid]
            checks.append({
                'property_id': pid,
                'quick_cmd': './check %s --tier quick' % pid,
                'thorough_cmd': './check %s --tier thorough' % pid,
                'evidence_file': 'evidence/%s.json' % pid,
                'replay_cmd_template': './check %s --replay {path}' % pid,
                'engine': 'rpsa',
                'level_claimed': {'category': 'other', 'text': text + EXTRA.get(pid, '') + EXTRA2.get(pid, '') + SHARED, 'design_ref': ref},
                'level_note': note,
                'technique': 'static analysis: ' + tech + '; finite-domain evaluation of guards, reaching definitions, sibling-consistency (anti-unification of parallel fragments); verdict by consensus over the canonical tree and behaviour-preserving normalised views',
            })
        else:
            na.append({'property_id': pid, 'reason': NA.get(pid, PENDING)})
    man = {
        'version': 1,
        'setup_cmd': 'sh -c "if [ -x /venv/bin/python ]; then /venv/bin/python -S -B -m compileall -q rpsa >/dev/null; else python3 -S -B -m compileall -q rpsa >/dev/null; fi; rm -rf rpsa/__pycache__ rpsa/rules/__pycache__; true"',
        'hooks': {'guard': 'RADICAL_PILOT_VERIF', 'enable': 'none needed: the checks parse the sources of /repo, nothing is instrumented or executed',
                  'baseline_off_cmd': 'cd /repo && /venv/bin/python -m pytest -ra -q -p no:cacheprovider --timeout=900 --continue-on-collection-errors',
                  'source_commits': [], 'add_only': True},
        'engines': [{'name': 'rpsa', 'path': 'rpsa', 'serves_properties': sorted(CHECKS),
                     'kind_free_text': 'pure-stdlib static analyser: ast program model (imports, C3 MRO, constant folding, call resolution), statement CFG with short-circuit and exception edges, path exploration with abstract states, control-dependence and dependence closure; per-property rules in rpsa/rules'}],
        'checks': checks,
        'not_applicable': na,
        'notes': 'All checks are static analysis of the current working tree of /repo (nothing is imported or run). exit 0 = held (KNOWN-FINDING lines for entries of known_findings.json), 1 = VIOLATION, 2 = ANALYSIS-ERROR (anchor vanished / unrecognised idiom / traceback).',
    }
    with open(os.path.join(HERE, 'MANIFEST.json'), 'w') as fh:
        json.dump(man, fh, indent=1)
    print('checks: %d, not_applicable: %d' % (len(checks), len(na)))

if __name__ == '__main__':
    main()
