#!/usr/bin/env python3
"""silence tests: package-wide behaviour-preserving AST transformations.  Each
family is applied to EVERY site in the package at once (through the in-memory
overlay, nothing is written to /repo); all checks must report exactly what
they report on the real tree.

families
  swap      `if c: A else: B`            -> `if not c: B else: A`
  cont      `for ..: if c: BODY` (last)  -> `for ..: if not c: continue; BODY`
  cmp       `a == C` / `a != C`          -> `C == a` / `C != a`  (C constant-like)
  aug       `x += e` / `x -= e`          -> `x = x + e` / `x = x - e` (plain names / self attrs)
  demorgan  `not a and not b`            -> `not (a or b)`,  `not a or not b` -> `not (a and b)`
  notin     `a not in b`                 -> `not a in b`;  `a is not b` -> `not a is b`
  retelse   `if c: ...return` + rest     -> `if c: ... return  else: rest`
  ternary   `if c: x = A else: x = B`    -> `x = A if c else B`
  merge     `if a: if b: X`              -> `if a and b: X`
  split     `if a and b: X`              -> `if a: if b: X`
  hoist     `if f(x) == C: ...`          -> `_h = f(x) == C; if _h: ...`

usage: tools/transform_silence.py [family ...]   (default: all, one after another)
       tools/transform_silence.py --per-file family   (one file at a time: slower, finer)
"""
import os, sys, ast, json, copy
HERE = os.path.dirname(os.path.dirname(os.path.abspath(__file__)))
sys.path.insert(0, HERE)
from rpsa.model import Program, PKG, AnalysisError
from rpsa.main import run_consensus
root = '/repo'


def neg(test):
    if isinstance(test, ast.UnaryOp) and isinstance(test.op, ast.Not):
        return test.operand
    return ast.UnaryOp(op=ast.Not(), operand=test)


def jumps(body):
    s = body[-1]
    return isinstance(s, (ast.Return, ast.Raise, ast.Continue, ast.Break))


class Swap(ast.NodeTransformer):
    n = 0

    def visit_If(self, node):
        self.generic_visit(node)
        if node.orelse and not (len(node.orelse) == 1 and
                                isinstance(node.orelse[0], ast.If)):
            Swap.n += 1
            return ast.If(test=neg(node.test), body=node.orelse,
                          orelse=node.body)
        return node


class Cont(ast.NodeTransformer):
    n = 0

    def loop(self, node):
        self.generic_visit(node)
        if node.body and isinstance(node.body[-1], ast.If) and \
                not node.body[-1].orelse:
            last = node.body[-1]
            Cont.n += 1
            node.body = node.body[:-1] + [
                ast.If(test=neg(last.test), body=[ast.Continue()], orelse=[])
            ] + last.body
        return node
    visit_For = loop
    visit_While = loop


def constlike(e):
    if isinstance(e, ast.Constant):
        return True
    if isinstance(e, ast.Attribute) and isinstance(e.value, ast.Name) and \
            e.value.id in ('rps', 'rpc') and e.attr.isupper():
        return True
    if isinstance(e, ast.Name) and e.id.isupper():
        return True
    return False


class Cmp(ast.NodeTransformer):
    n = 0

    def visit_Compare(self, node):
        self.generic_visit(node)
        if len(node.ops) == 1 and isinstance(node.ops[0], (ast.Eq, ast.NotEq)) \
                and constlike(node.comparators[0]) and not constlike(node.left):
            Cmp.n += 1
            return ast.Compare(left=node.comparators[0], ops=node.ops,
                               comparators=[node.left])
        return node


class Aug(ast.NodeTransformer):
    n = 0

    def visit_AugAssign(self, node):
        t = node.target
        simple = isinstance(t, ast.Name) or (
            isinstance(t, ast.Attribute) and isinstance(t.value, ast.Name))
        if simple and isinstance(node.op, (ast.Add, ast.Sub)):
            # lists: `x += [..]` mutates in place, `x = x + [..]` rebinds:
            # only rewrite numeric looking operands
            v = node.value
            num = isinstance(v, ast.Constant) and isinstance(v.value, (int, float))
            num = num or (isinstance(v, ast.Call) and isinstance(v.func, ast.Name)
                          and v.func.id in ('len', 'int', 'float'))
            if num:
                Aug.n += 1
                load = copy.deepcopy(t)
                load.ctx = ast.Load()
                return ast.Assign(targets=[t], value=ast.BinOp(
                    left=load, op=node.op, right=node.value))
        return node


class DeMorgan(ast.NodeTransformer):
    n = 0

    def visit_BoolOp(self, node):
        self.generic_visit(node)
        if all(isinstance(v, ast.UnaryOp) and isinstance(v.op, ast.Not)
               for v in node.values):
            DeMorgan.n += 1
            other = ast.Or() if isinstance(node.op, ast.And) else ast.And()
            return ast.UnaryOp(op=ast.Not(), operand=ast.BoolOp(
                op=other, values=[v.operand for v in node.values]))
        return node


class NotIn(ast.NodeTransformer):
    n = 0

    def visit_Compare(self, node):
        self.generic_visit(node)
        if len(node.ops) == 1 and isinstance(node.ops[0], (ast.NotIn, ast.IsNot)):
            NotIn.n += 1
            op = ast.In() if isinstance(node.ops[0], ast.NotIn) else ast.Is()
            return ast.UnaryOp(op=ast.Not(), operand=ast.Compare(
                left=node.left, ops=[op], comparators=node.comparators))
        return node


class RetElse(ast.NodeTransformer):
    n = 0

    def block(self, body):
        out = []
        for i, s in enumerate(body):
            if isinstance(s, ast.If) and not s.orelse and jumps(s.body) and \
                    i + 1 < len(body):
                RetElse.n += 1
                rest = self.block(body[i + 1:])
                out.append(ast.If(test=s.test, body=s.body, orelse=rest))
                return out
            out.append(s)
        return out

    def generic_visit(self, node):
        super().generic_visit(node)
        for f in ('body', 'orelse', 'finalbody'):
            b = getattr(node, f, None)
            if isinstance(b, list) and b and isinstance(b[0], ast.stmt):
                setattr(node, f, self.block(b))
        return node


class Ternary(ast.NodeTransformer):
    n = 0

    def visit_If(self, node):
        self.generic_visit(node)
        if len(node.body) == 1 and len(node.orelse) == 1:
            a, b = node.body[0], node.orelse[0]
            if isinstance(a, ast.Assign) and isinstance(b, ast.Assign) and \
                    len(a.targets) == 1 and len(b.targets) == 1 and \
                    isinstance(a.targets[0], ast.Name) and \
                    ast.dump(a.targets[0]) == ast.dump(b.targets[0]):
                Ternary.n += 1
                return ast.Assign(targets=a.targets, value=ast.IfExp(
                    test=node.test, body=a.value, orelse=b.value))
        return node


class Merge(ast.NodeTransformer):
    n = 0

    def visit_If(self, node):
        self.generic_visit(node)
        if not node.orelse and len(node.body) == 1 and \
                isinstance(node.body[0], ast.If) and not node.body[0].orelse:
            Merge.n += 1
            inner = node.body[0]
            return ast.If(test=ast.BoolOp(op=ast.And(), values=[node.test,
                                                                inner.test]),
                          body=inner.body, orelse=[])
        return node


class Split(ast.NodeTransformer):
    n = 0

    def visit_If(self, node):
        self.generic_visit(node)
        if not node.orelse and isinstance(node.test, ast.BoolOp) and \
                isinstance(node.test.op, ast.And):
            Split.n += 1
            first, rest = node.test.values[0], node.test.values[1:]
            rt = rest[0] if len(rest) == 1 else ast.BoolOp(op=ast.And(),
                                                           values=rest)
            return ast.If(test=first, body=[ast.If(test=rt, body=node.body,
                                                   orelse=[])], orelse=[])
        return node


class Hoist(ast.NodeTransformer):
    """if <compare or call test>: ...  ->  _hN = <test>; if _hN: ...
    (only for ifs that are direct members of a block, not elif arms)"""
    n = 0

    def block(self, body):
        out = []
        for s in body:
            if isinstance(s, ast.If) and isinstance(s.test, (ast.Compare,
                                                             ast.Call)) and \
                    not any(isinstance(x, (ast.NamedExpr, ast.Await, ast.Yield))
                            for x in ast.walk(s.test)):
                Hoist.n += 1
                name = '_h%d' % Hoist.n
                out.append(ast.Assign(targets=[ast.Name(id=name,
                                                        ctx=ast.Store())],
                                      value=s.test))
                s.test = ast.Name(id=name, ctx=ast.Load())
            out.append(s)
        return out

    def generic_visit(self, node):
        super().generic_visit(node)
        for f in ('body', 'orelse', 'finalbody'):
            b = getattr(node, f, None)
            if isinstance(b, list) and b and isinstance(b[0], ast.stmt):
                if f == 'orelse' and isinstance(node, ast.If) and \
                        len(b) == 1 and isinstance(b[0], ast.If):
                    continue                      # elif arm
                setattr(node, f, self.block(b))
        return node


FAMILIES = {'swap': Swap, 'cont': Cont, 'cmp': Cmp, 'aug': Aug,
            'demorgan': DeMorgan, 'notin': NotIn, 'retelse': RetElse,
            'ternary': Ternary, 'merge': Merge, 'split': Split,
            'hoist': Hoist}


def sources():
    pk = os.path.join(root, PKG)
    for dp, dn, fn in os.walk(pk):
        for f in sorted(fn):
            if f.endswith('.py'):
                full = os.path.join(dp, f)
                yield os.path.relpath(full, pk), open(full, encoding='utf-8').read()


def transform(cls, src, rel):
    tree = cls().visit(ast.parse(src))
    ast.fix_missing_locations(tree)
    out = ast.unparse(tree) + '\n'
    compile(out, rel, 'exec')
    return out


def compare(overlay, base, pids):
    bad = []
    for pid in pids:
        try:
            b = {f.key for f in run_consensus(pid, overlay=overlay,
                                              quiet=True).findings}
            status = 'same' if base[pid] == b else 'DIFF %s' % sorted(base[pid] ^ b)[:4]
        except AnalysisError as e:
            status = 'ANALYSIS-ERROR %s' % str(e)[:220]
        except Exception as e:                                   # noqa
            status = 'CRASH %r' % e
        if status != 'same':
            bad.append((pid, status))
    return bad


def main():
    args = [a for a in sys.argv[1:] if not a.startswith('--')]
    per_file = '--per-file' in sys.argv
    fams = args or list(FAMILIES)
    pids = [c['property_id'] for c in json.load(open(
        os.path.join(HERE, 'MANIFEST.json')))['checks']]
    if os.environ.get('ONLY'):
        pids = [p for p in pids if p in os.environ['ONLY'].split(',')]
    base = {pid: {f.key for f in run_consensus(pid, quiet=True).findings}
            for pid in pids}
    nbad = 0
    for fam in fams:
        cls = FAMILIES[fam]
        cls.n = 0
        if per_file:
            for rel, src in sources():
                before = cls.n
                ov = {rel: transform(cls, src, rel)}
                if cls.n == before:
                    continue
                for pid, status in compare(ov, base, pids):
                    nbad += 1
                    print('%s %s %s %s' % (fam, rel, pid, status))
            print('%s: %d sites, per file' % (fam, cls.n))
            continue
        overlay = {rel: transform(cls, src, rel) for rel, src in sources()}
        bad = compare(overlay, base, pids)
        nbad += len(bad)
        print('%s: %d sites transformed, %d/%d checks unchanged' % (
            fam, cls.n, len(pids) - len(bad), len(pids)))
        for pid, status in bad:
            print('   %s %s' % (pid, status))
    sys.exit(1 if nbad else 0)


if __name__ == '__main__':
    main()
