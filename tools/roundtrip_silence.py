#!/usr/bin/env python3
"""silence test: every source file replaced by ast.unparse(ast.parse(src))
(comments, blank lines, line breaks, quoting style all change; behaviour does
not) - all checks must report exactly what they report on the real tree"""
import os, sys, ast, json
HERE = os.path.dirname(os.path.dirname(os.path.abspath(__file__)))
sys.path.insert(0, HERE)
from rpsa.model import Program, PKG, AnalysisError
from rpsa.main import run_property
root = '/repo'
overlay = {}
pk = os.path.join(root, PKG)
for dp, dn, fn in os.walk(pk):
    for f in fn:
        if f.endswith('.py'):
            full = os.path.join(dp, f)
            rel = os.path.relpath(full, pk)
            src = open(full, encoding='utf-8').read()
            overlay[rel] = ast.unparse(ast.parse(src)) + '\n'
base = Program(root)
var = Program(root, overlay=overlay)
bad = 0
for c in json.load(open(os.path.join(HERE, 'MANIFEST.json')))['checks']:
    pid = c['property_id']
    if os.environ.get('ONLY') and pid not in os.environ['ONLY'].split(','):
        continue
    try:
        a = {f.key for f in run_property(pid, prog=base, quiet=True).findings}
        rb = run_property(pid, prog=var, quiet=True)
        rb.verify_minimums()
        b = {f.key for f in rb.findings}
        status = 'same' if a == b else 'DIFF %s' % sorted(a ^ b)[:3]
    except AnalysisError as e:
        status = 'ANALYSIS-ERROR %s' % str(e)[:150]
    except Exception as e:
        status = 'CRASH %r' % e
    if status != 'same':
        bad += 1
    print(pid, status)
sys.exit(1 if bad else 0)
