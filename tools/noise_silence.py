#!/usr/bin/env python3
"""silence test: benign instrumentation noise.  In every method of the package
a logging / profiling statement is inserted at the start of every statement
block (function bodies, if/else arms, loop bodies, try/except/finally arms,
with bodies).  Behaviour does not change (the loggers and profilers are
trusted no-ops for the properties); all checks must report exactly what they
report on the real tree.

usage: tools/noise_silence.py [log|prof|both]
"""
import os, sys, ast, json
HERE = os.path.dirname(os.path.dirname(os.path.abspath(__file__)))
sys.path.insert(0, HERE)
from rpsa.model import Program, PKG, AnalysisError
from rpsa.main import run_consensus
mode = sys.argv[1] if len(sys.argv) > 1 else 'log'
root = '/repo'


def noise(kind, n):
    if kind == 'log':
        src = "self._log.debug('noise %d')" % n
    else:
        src = "self._prof.prof('noise_%d', uid='x')" % n
    return ast.parse(src).body[0]


class Ins(ast.NodeTransformer):
    def __init__(self):
        self.n = 0
        self.in_self = 0

    def visit_FunctionDef(self, node):
        has_self = bool(node.args.args) and node.args.args[0].arg == 'self'
        self.in_self += 1 if has_self else 0
        self.generic_visit(node)
        if has_self:
            self.in_self -= 1
        if has_self or self.in_self:
            node.body = self.block(node.body, doc=True)
        return node

    def block(self, body, doc=False):
        if not self.in_self:
            return body
        out = list(body)
        kinds = ['log', 'prof'] if mode == 'both' else [mode]
        pos = 1 if doc and out and isinstance(out[0], ast.Expr) and \
            isinstance(out[0].value, ast.Constant) and \
            isinstance(out[0].value.value, str) else 0
        for k in kinds:
            self.n += 1
            out.insert(pos, noise(k, self.n))
        return out

    def generic_visit(self, node):
        super().generic_visit(node)
        if isinstance(node, (ast.FunctionDef, ast.ClassDef, ast.Module)):
            return node
        for f in ('body', 'orelse', 'finalbody'):
            b = getattr(node, f, None)
            if isinstance(b, list) and b and isinstance(b[0], ast.stmt):
                setattr(node, f, self.block(b))
        return node

    def visit_ExceptHandler(self, node):
        self.generic_visit(node)
        return node


overlay = {}
pk = os.path.join(root, PKG)
total = 0
for dp, dn, fn in os.walk(pk):
    for f in fn:
        if f.endswith('.py'):
            full = os.path.join(dp, f)
            rel = os.path.relpath(full, pk)
            tree = ast.parse(open(full, encoding='utf-8').read())
            ins = Ins()
            tree = ins.visit(tree)
            total += ins.n
            ast.fix_missing_locations(tree)
            overlay[rel] = ast.unparse(tree) + '\n'
            compile(overlay[rel], rel, 'exec')
print('inserted %d noise statements (%s)' % (total, mode))
bad = 0
for c in json.load(open(os.path.join(HERE, 'MANIFEST.json')))['checks']:
    pid = c['property_id']
    if os.environ.get('ONLY') and pid not in os.environ['ONLY'].split(','):
        continue
    try:
        a = {f.key for f in run_consensus(pid, quiet=True).findings}
        b = {f.key for f in run_consensus(pid, overlay=overlay,
                                          quiet=True).findings}
        status = 'same' if a == b else 'DIFF %s' % sorted(a ^ b)[:3]
    except AnalysisError as e:
        status = 'ANALYSIS-ERROR %s' % str(e)[:200]
    except Exception as e:                                   # noqa
        status = 'CRASH %r' % e
    if status != 'same':
        bad += 1
    print(pid, status)
sys.exit(1 if bad else 0)
