#!/bin/sh
# run the repository's pinned suite and compare the passing set with
# /root/.vp/BASELINE.json (stable_pass); prints OK or the missing tests
out=$(mktemp /tmp/junit.XXXXXX.xml)
cd /repo && /venv/bin/python -m pytest -ra -q -p no:cacheprovider --timeout=900 \
   --continue-on-collection-errors --junitxml=$out >/dev/null 2>&1
python3 - "$out" <<'P'
import sys, json, xml.etree.ElementTree as ET
base=set(json.load(open('/root/.vp/BASELINE.json'))['stable_pass'])
t=ET.parse(sys.argv[1]); ok=set()
for tc in t.iter('testcase'):
    if not any(c.tag in ('failure','error','skipped') for c in tc):
        ok.add('%s::%s'%(tc.get('classname'),tc.get('name')))
miss=sorted(base-ok)
print('passed %d, baseline %d, missing %d'%(len(ok),len(base),len(miss)))
for m in miss: print('  MISSING',m)
sys.exit(1 if miss else 0)
P
rc=$?
rm -f $out /repo/rm_info.json
exit $rc
