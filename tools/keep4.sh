#!/bin/sh
# usage: tools/keep4.sh C09 [C10 ...] - validate and keep the round-4 changes of /tmp/seed4/out/<pid>
# (g1..g6 share one demo.py that takes the variant name as argument; r7, r8 refactorings)
cd "$(dirname "$0")/.."
for p in "$@"; do
  for v in g1 g2 g3 g4 g5 g6; do
    d=/tmp/seed4/out/$p/$v
    [ -f $d/patch.diff ] || continue
    python3 - "$p" "$v" <<'P'
import sys, re
p, v = sys.argv[1], sys.argv[2]
src = open('/tmp/seed4/out/%s/demo.py' % p).read()
fut = ''.join(l for l in src.splitlines(True) if l.startswith('from __future__'))
src = ''.join(l for l in src.splitlines(True) if not l.startswith('from __future__'))
open('/tmp/seed4/out/%s/%s/demo.py' % (p, v), 'w').write(
    fut + "import sys as _sys\n_sys.argv = [_sys.argv[0], '%s']\n" % v + src)
notes = '/tmp/seed4/out/%s/notes.md' % p
import os, shutil
if os.path.exists(notes):
    shutil.copy(notes, '/tmp/seed4/out/%s/%s/notes.md' % (p, v))
P
    EVALWT=/tmp/evalwt_main /venv/bin/python tools/evalseed.py $p $d --keep 2>&1 | grep -v conda | grep -E '"valid"|kept|demo_' | tr '\n' ' '; echo
  done
  REFAC_GLOB="/tmp/seed4/out/$p/r*/patch.diff" EVALWT=/tmp/evalwt_main /venv/bin/python tools/evalrefac.py --keep 2>&1 | grep -v conda | grep baseline
done
