#!/usr/bin/env python3
"""Light regression after a change to rpsa/rules/cNN.py: run ONLY check CNN against every kept
seeded change of CNN (breaking changes must be VIOLATION unless listed as out of reach in DESIGN.md 9,
refactorings must be silent).  usage: tools/propregress.py C03 [C09 ...]   (JOBS=12)"""
import os, sys, json, subprocess
from concurrent.futures import ThreadPoolExecutor
HERE = os.path.dirname(os.path.dirname(os.path.abspath(__file__)))


def one(d):
    pid = d.split('-')[0]
    r = subprocess.run([sys.executable, os.path.join(HERE, 'tools', 'seedcheck.py'),
                        os.path.join(HERE, 'seeded', d, 'patch.diff'), '--props', pid, '--json'],
                       stdout=subprocess.PIPE, stderr=subprocess.STDOUT, text=True)
    for line in r.stdout.splitlines():
        if line.startswith('JSON:'):
            st, items = json.loads(line[5:])[pid]
            return d, st, sorted({i[0] for i in items if i[0]})
    return d, 'TOOL-ERROR', [r.stdout[-200:]]


pids = sys.argv[1:]
dirs = [d for d in sorted(os.listdir(os.path.join(HERE, 'seeded')))
        if d.split('-')[0] in pids and os.path.exists(os.path.join(HERE, 'seeded', d, 'patch.diff'))]
bad = 0
with ThreadPoolExecutor(int(os.environ.get('JOBS', '12'))) as ex:
    for d, st, rules in ex.map(one, dirs):
        meta = json.load(open(os.path.join(HERE, 'seeded', d, 'meta.json')))
        kind = meta.get('kind', 'break')
        ok = (st == 'ok') if kind == 'refactoring' else (st == 'VIOLATION')
        if not ok:
            bad += 1
            print('NOT-AS-EXPECTED', d, kind, st, rules)
print('%d seeds of %s, %d not as expected' % (len(dirs), ','.join(pids), bad))
