"""Effect counting: 'exactly one outcome per thing per loop iteration / path'.

Outcomes of a tracked variable V (a task) inside a region:
  hand-on    self.advance(V, ..) / self.advance_tasks / wrappers given by the
             caller (e.g. self._fail_task(V, ..)); self.is_canceled(V) on its
             true edge (it advances CANCELED inside)
  retention  X.append(V), D[k].append(V), D[k][uid] = V, X.add(V)
  un-retain  del D[..][..] on a container V was retained in, X.remove(V)
The abstract state is (hand, retained), each capped at 2.  Leaving a statement
through an 'exc' edge means its effect did not happen (effects are atomic).
"""

import ast

from .model import (walk, dotted, call_name, kwarg, unparse, short, calls_in,
                    root_name)
from .flow import Exploration, loop_slice
from . import idioms as I


class Effects:

    def __init__(self, var, hand_wrappers=('self._fail_task',),
                 extra_hand=None, containers=None):
        self.var = var
        self.hand_wrappers = set(hand_wrappers)
        self.extra_hand = extra_hand       # callable(call) -> bool
        self.containers = containers       # restrict retention to these roots
        self.retained_in = set()

    def is_var(self, e):
        return isinstance(e, ast.Name) and e.id == self.var

    def of_stmt(self, node):
        """list of (kind, delta) for a cfg 'stmt' node"""
        out = []
        a = node.ast
        if node.kind != 'stmt' or a is None:
            return out
        for c in calls_in(a):
            name = call_name(c)
            if I.is_handon(c) and self.is_var(I.handon_thing(c)):
                out.append(('hand', 1, c))
            elif name in self.hand_wrappers and c.args and \
                    self.is_var(c.args[0]):
                out.append(('hand', 1, c))
            elif self.extra_hand and self.extra_hand(c):
                out.append(('hand', 1, c))
            elif isinstance(c.func, ast.Attribute) and c.func.attr in \
                    ('append', 'add', 'appendleft') and c.args and \
                    self.is_var(c.args[0]):
                if self._container_ok(c.func.value):
                    out.append(('ret', 1, c))
                    self.retained_in.add(self._base(c.func.value))
            elif isinstance(c.func, ast.Attribute) and c.func.attr in \
                    ('remove', 'discard') and c.args and self.is_var(c.args[0]):
                out.append(('ret', -1, c))
        if isinstance(a, ast.Assign) and self.is_var(a.value):
            for t in a.targets:
                if isinstance(t, ast.Subscript) and \
                        self._container_ok(t.value) and \
                        root_name(t) != self.var:
                    out.append(('ret', 1, a))
                    self.retained_in.add(self._base(t.value))
        if isinstance(a, ast.Delete):
            for t in a.targets:
                if isinstance(t, ast.Subscript) and \
                        self._base(t.value) in self.retained_in:
                    out.append(('ret', -1, a))
        return out

    def _base(self, e):
        """container identity: strip one trailing subscript level so that
        self._waitpool[priority] (append target) and
        self._waitpool[priority][uid] (del target's value) agree"""
        return unparse(e)

    def _container_ok(self, e):
        if self.containers is None:
            return True
        return root_name(e) in self.containers or \
            dotted(_strip(e)) in self.containers

    def of_test(self, node, label):
        """effects of taking edge `label` out of a test node"""
        a = node.ast
        for c in calls_in(a):
            if call_name(c) == 'self.is_canceled' and c.args and \
                    self.is_var(c.args[0]):
                # atom forms: is_canceled(V) ; is_canceled(V) is True ;
                #             is_canceled(V) is False / == False
                truth = True
                if isinstance(a, ast.Compare) and len(a.ops) == 1 and \
                        isinstance(a.comparators[0], ast.Constant):
                    cv = a.comparators[0].value
                    pos = isinstance(a.ops[0], (ast.Is, ast.Eq))
                    truth = bool(cv) == pos
                if (label == 'T') == truth:
                    return [('hand', 1, c)]
        return []


def _strip(e):
    while isinstance(e, ast.Subscript):
        e = e.value
    return e


def pre_scan(g, eff, region=None):
    """first pass so that `retained_in` is known before deletes are seen"""
    for n in g.nodes:
        if region is not None and n.id not in region:
            continue
        eff.of_stmt(n)


def count_outcomes(g, eff, start, stop=None, stop_edge=None):
    """explore from `start`; returns (exploration, terminals) with state
    (hand, ret)"""
    pre_scan(g, eff)

    def transfer(node, edge, st):
        if edge.label == 'exc':
            return st
        h, r = st
        if node.kind == 'stmt':
            for kind, d, _ in eff.of_stmt(node):
                if kind == 'hand':
                    h = min(2, h + d)
                else:
                    r = max(0, min(2, r + d))
        elif node.kind == 'test':
            for kind, d, _ in eff.of_test(node, edge.label):
                h = min(2, h + d)
        return (h, r)
    ex = Exploration(g, start, (0, 0), transfer, stop=stop,
                     stop_edge=stop_edge)
    return ex


def check_one_outcome(rep, rid, f, g, head_id, var, what, history,
                      hand_wrappers=('self._fail_task',), extra_hand=None,
                      allow=lambda h, r: h + r == 1 and h <= 1,
                      exits_ok=None):
    """every path through one iteration of loop `head_id` ends with exactly
    one outcome for `var` (allow() decides).  Function exits via uncaught
    raise are not judged (the component fails the whole bulk then)."""
    eff = Effects(var, hand_wrappers, extra_hand)
    start, stop, stop_edge = loop_slice(g, head_id)
    ex = count_outcomes(g, eff, start, stop, stop_edge)
    rep.stat('paths_enumerated', ex.states)
    n_ok, bad = 0, {}
    for t in ex.terminals:
        if t.node == g.raise_.id:
            continue
        if exits_ok and exits_ok(t):
            continue
        h, r = t.state
        if allow(h, r):
            n_ok += 1
        else:
            bad.setdefault((h, r), t)
    for (h, r), t in sorted(bad.items()):
        lits = ex.literals(t)
        rep.bad(rid, f, '%s:%s:hand=%d,retained=%d' % (what, var, h, r),
                '%s: on a path through one iteration `%s` ends with %d '
                'hand-on(s) and %d retention(s) - exactly one outcome is '
                'required (%s)' % (what, var, h, r,
                                   'lost' if h + r == 0 else 'duplicated'),
                f.loc(g.loop_ast[head_id]), history=history,
                path=lits[-8:])
    if not bad:
        rep.ok(rid, f, '%s: every path through one iteration gives `%s` '
               'exactly one outcome (%d terminal states)' % (what, var, n_ok),
               f.loc(g.loop_ast[head_id]))
    return not bad
