"""Statement-level control-flow graph for one function.

* Boolean tests are decomposed into short-circuit edges: every branch edge
  carries one atom and a polarity ('T' / 'F').
* `for` loops have a head node with edges 'iter' (take an item) and 'done'.
* try/except/finally: statements of a try body that may raise (call, subscript
  load, assert, raise) have an 'exc' edge to the handler dispatch; `finally`
  bodies are duplicated per continuation kind (normal / exception / return /
  break / continue) so that no path enters one way and leaves another.
* Exits: EXIT (return / fall through) and RAISE (uncaught exception).
* Leaving a statement through an 'exc' edge means the statement did *not* take
  effect (effect calls are atomic - DESIGN 2.8); clients apply a statement's
  effect when they traverse a non-'exc' out-edge.
"""

import ast

from .model import walk, unparse, short


class Node:
    __slots__ = ('id', 'kind', 'ast', 'lineno', 'loops', 'tries', 'withs',
                 'info')

    def __init__(self, id, kind, node, loops, tries, withs):
        self.id     = id
        self.kind   = kind      # entry exit raise stmt test for with dispatch
                                # handler join
        self.ast    = node
        self.lineno = getattr(node, 'lineno', 0) if node is not None else 0
        self.loops  = loops     # tuple of enclosing loop head ids (outer first)
        self.tries  = tries     # tuple of enclosing ast.Try nodes (body part)
        self.withs  = withs     # tuple of enclosing ast.With nodes
        self.info   = None

    def __repr__(self):
        if self.ast is None:
            return '<%d %s>' % (self.id, self.kind)
        return '<%d %s L%d %s>' % (self.id, self.kind, self.lineno,
                                   short(self.ast, 50))


class Edge:
    __slots__ = ('src', 'dst', 'label', 'back', 'enter')

    def __init__(self, src, dst, label, back=False, enter=None):
        self.src   = src
        self.dst   = dst
        self.label = label      # next T F exc iter done
        self.back  = back       # goes back to a loop head
        self.enter = enter      # loop head id whose body this edge enters

    def __repr__(self):
        return '%d-%s->%d' % (self.src, self.label, self.dst)


def may_raise(stmt):
    """narrow notion (DESIGN app. B.2): a call, a subscript load, an assert
    or a raise"""
    if isinstance(stmt, (ast.Assert, ast.Raise)):
        return True
    for n in walk(stmt):
        if isinstance(n, ast.Call):
            return True
        if isinstance(n, ast.Subscript) and isinstance(n.ctx, ast.Load):
            return True
        if isinstance(n, (ast.Await, ast.Yield, ast.YieldFrom)):
            return True
    return False


CATCH_ALL = {'Exception', 'BaseException'}

# exception type (last dotted component) -> what kind of statement can raise
# it; a handler for one of these does not catch what other statements raise
_RAISERS = {
    'Empty'        : lambda st: _has_queue_get(st),
    'Full'         : lambda st: _has_call_attr(st, ('put', 'put_nowait')),
    'StopIteration': lambda st: _has_call_name(st, ('next',)),
    'TimeoutExpired': lambda st: _has_call_attr(st, ('wait', 'communicate',
                                                     'join', 'run')),
}


def _has_call_attr(st, attrs):
    return any(isinstance(n, ast.Call) and isinstance(n.func, ast.Attribute)
               and n.func.attr in attrs for n in walk(st))


def _has_queue_get(st):
    # q.get(timeout=..) / q.get() / q.get_nowait(); d.get('key'[, default]) is
    # a mapping lookup and never raises queue.Empty
    for n in walk(st):
        if isinstance(n, ast.Call) and isinstance(n.func, ast.Attribute):
            if n.func.attr == 'get_nowait':
                return True
            if n.func.attr == 'get' and not (
                    n.args and isinstance(n.args[0], ast.Constant) and
                    isinstance(n.args[0].value, str)):
                return True
    return False


def _has_call_name(st, names):
    return any(isinstance(n, ast.Call) and isinstance(n.func, ast.Name)
               and n.func.id in names for n in walk(st))


class _TryFrame:
    """exception routing for the body of one try statement: a statement gets
    an edge to a dispatch node which leads to the handlers that may catch what
    the statement can raise, and onwards if none of them is catch-all"""

    def __init__(self, try_ast, uncaught, ctx):
        self.ast = try_ast
        self.ctx = ctx                    # (loops, tries, withs) at the try
        self.uncaught = uncaught          # node id or outer _TryFrame
        self.handlers = []                # [(handler node id, type names)]
        self.cache = {}

    def compatible(self, names, stmt):
        if names is None or stmt is None:
            return True
        if isinstance(stmt, ast.Raise):
            if stmt.exc is None:
                return True
            raised = stmt.exc.func if isinstance(stmt.exc, ast.Call) \
                else stmt.exc
            rname = unparse(raised).split('.')[-1]
            for nm in names:
                last = nm.split('.')[-1]
                if last in CATCH_ALL or last == rname:
                    return True
                if last in _RAISERS:
                    continue
                # unknown relation between two named types: may match
                if rname[:1].islower():
                    return True           # raise of a variable
            return False
        for nm in names:
            last = nm.split('.')[-1]
            if last in _RAISERS:
                if _RAISERS[last](stmt):
                    return True
            else:
                return True
        return False

    def dispatch(self, cfg, stmt):
        comp = []
        caught = False
        for hid, names in self.handlers:
            if self.compatible(names, stmt):
                comp.append(hid)
                if names is None or any(n.split('.')[-1] in CATCH_ALL
                                        for n in names):
                    caught = True
                    break
        if not comp:
            return cfg._exc_dst(self.uncaught, stmt)
        # the onward target may depend on the statement (outer frames)
        onward = None if caught else cfg._exc_dst(self.uncaught, stmt)
        key = (tuple(comp), onward)
        if key in self.cache:
            return self.cache[key]
        d = cfg._new_ctx('dispatch', self.ast, self.ctx)
        for hid in comp:
            cfg._edge(d.id, hid, 'exc')
        if onward is not None:
            cfg._edge(d.id, onward, 'exc')
        self.cache[key] = d.id
        return d.id


class CFG:

    def __init__(self, func_node, exc_everywhere=False):
        self.func   = func_node
        self.nodes  = []
        self.succ   = {}
        self.pred   = {}
        self.exc_everywhere = exc_everywhere
        self.loop_body = {}       # head id -> set(node ids in the body)
        self.loop_ast  = {}       # head id -> ast.For / ast.While
        self.entry = self._new('entry', None)
        self.exit  = self._new('exit', None)
        self.raise_ = self._new('raise', None)
        self._loops = ()
        self._tries = ()
        self._withs = ()
        # context stacks
        self._exc_target = [self.raise_.id]      # where exceptions go
        self._frames = []                        # loop / finally frames
        first = self._new('join', None)
        self._edge(self.entry.id, first.id, 'next')
        ends = self._block(func_node.body, [(first.id, 'next')])
        self._connect(ends, self.exit.id)
        self._by_ast = {}
        for n in self.nodes:
            if n.ast is not None:
                self._by_ast.setdefault(id(n.ast), []).append(n)

    # --------------------------------------------------------------------------
    def _new(self, kind, node):
        n = Node(len(self.nodes), kind, node, getattr(self, '_loops', ()),
                 getattr(self, '_tries', ()), getattr(self, '_withs', ()))
        self.nodes.append(n)
        self.succ[n.id] = []
        self.pred[n.id] = []
        for h in n.loops:
            self.loop_body[h].add(n.id)
        return n

    def _new_ctx(self, kind, node, ctx):
        n = Node(len(self.nodes), kind, node, ctx[0], ctx[1], ctx[2])
        self.nodes.append(n)
        self.succ[n.id] = []
        self.pred[n.id] = []
        for h in n.loops:
            self.loop_body[h].add(n.id)
        return n

    def _edge(self, a, b, label, back=False, enter=None):
        e = Edge(a, b, label, back, enter)
        self.succ[a].append(e)
        self.pred[b].append(e)
        return e

    def _connect(self, ends, dst, back=False, enter=None):
        for (src, label) in ends:
            self._edge(src, dst, label, back=back, enter=enter)

    # `ends` = list of dangling (node id, label) pairs waiting for a successor
    def _block(self, stmts, ends):
        for s in stmts:
            if not ends:
                break                      # unreachable code
            ends = self._stmt(s, ends)
        return ends

    # --------------------------------------------------------------------------
    def _cond(self, test, ends):
        """decompose a boolean test; returns (true_ends, false_ends)"""
        if isinstance(test, ast.BoolOp):
            if isinstance(test.op, ast.And):
                fs = []
                cur = ends
                for v in test.values:
                    t, f = self._cond(v, cur)
                    fs += f
                    cur = t
                return cur, fs
            else:
                ts = []
                cur = ends
                for v in test.values:
                    t, f = self._cond(v, cur)
                    ts += t
                    cur = f
                return ts, cur
        if isinstance(test, ast.UnaryOp) and isinstance(test.op, ast.Not):
            t, f = self._cond(test.operand, ends)
            return f, t
        n = self._new('test', test)
        self._connect(ends, n.id)
        self._maybe_exc(n, test)
        return [(n.id, 'T')], [(n.id, 'F')]

    def _maybe_exc(self, n, stmt):
        # exception edges only where somebody may catch them (or on request)
        if (self._exc_target[-1] != self.raise_.id or self.exc_everywhere) \
                and may_raise(stmt):
            self._edge(n.id, self._exc_dst(self._exc_target[-1], stmt), 'exc')

    def _exc_dst(self, target, stmt):
        """node id an exception raised by `stmt` goes to, for a target that
        is a node id or a try frame"""
        if isinstance(target, int):
            return target
        return target.dispatch(self, stmt)

    # --------------------------------------------------------------------------
    def _jump(self, ends, kind):
        """route return/break/continue/raise through enclosing finally frames"""
        # walk frames from innermost
        for fr in reversed(self._frames):
            if fr['type'] == 'finally':
                ends = fr['build'](ends, kind)
                if not ends:
                    return
            elif fr['type'] == 'loop' and kind in ('break', 'continue'):
                if kind == 'break':
                    fr['breaks'] += ends
                else:
                    self._connect(ends, fr['head'], back=True)
                return
        if kind == 'return':
            self._connect(ends, self.exit.id)
        elif kind in ('break', 'continue'):
            # outside of loop: syntax error in python; ignore
            pass

    # --------------------------------------------------------------------------
    def _stmt(self, s, ends):

        if isinstance(s, ast.If):
            t, f = self._cond(s.test, ends)
            out = self._block(s.body, t)
            if s.orelse:
                out = out + self._block(s.orelse, f)
            else:
                out = out + f
            return out

        if isinstance(s, (ast.For, ast.AsyncFor)):
            head = self._new('for', s)
            self._connect(ends, head.id)
            self._maybe_exc(head, s.iter)
            self.loop_body[head.id] = set()
            self.loop_ast[head.id] = s
            fr = {'type': 'loop', 'head': head.id, 'breaks': []}
            self._frames.append(fr)
            old = self._loops
            self._loops = old + (head.id,)
            first = self._new('join', None)
            self._edge(head.id, first.id, 'iter', enter=head.id)
            body_ends = self._block(s.body, [(first.id, 'next')])
            self._connect(body_ends, head.id, back=True)
            self._loops = old
            self._frames.pop()
            out = [(head.id, 'done')]
            if s.orelse:
                out = self._block(s.orelse, out)
            return out + fr['breaks']

        if isinstance(s, ast.While):
            head = self._new('join', s)         # loop head (re-evaluation)
            head.kind = 'while'
            self._connect(ends, head.id)
            self.loop_body[head.id] = set()
            self.loop_ast[head.id] = s
            fr = {'type': 'loop', 'head': head.id, 'breaks': []}
            self._frames.append(fr)
            old = self._loops
            # the test belongs to the loop (it is re-evaluated per iteration)
            self._loops = old + (head.id,)
            t, f = self._cond(s.test, [(head.id, 'next')])
            first = self._new('join', None)
            self._connect(t, first.id, enter=head.id)
            body_ends = self._block(s.body, [(first.id, 'next')])
            self._connect(body_ends, head.id, back=True)
            self._loops = old
            self._frames.pop()
            out = f
            if s.orelse:
                out = self._block(s.orelse, out)
            return out + fr['breaks']

        if isinstance(s, ast.Try) or (hasattr(ast, 'TryStar') and
                                      isinstance(s, ast.TryStar)):
            return self._try(s, ends)

        if isinstance(s, (ast.With, ast.AsyncWith)):
            n = self._new('with', s)
            self._connect(ends, n.id)
            self._maybe_exc(n, ast.Tuple(elts=[i.context_expr
                                               for i in s.items], ctx=ast.Load()))
            old = self._withs
            self._withs = old + (s,)
            out = self._block(s.body, [(n.id, 'next')])
            self._withs = old
            return out

        if isinstance(s, ast.Return):
            n = self._new('stmt', s)
            self._connect(ends, n.id)
            if s.value is not None:
                self._maybe_exc(n, s.value)
            self._jump([(n.id, 'next')], 'return')
            return []

        if isinstance(s, ast.Raise):
            n = self._new('stmt', s)
            self._connect(ends, n.id)
            self._edge(n.id, self._exc_dst(self._exc_target[-1], s), 'exc')
            return []

        if isinstance(s, ast.Break):
            n = self._new('stmt', s)
            self._connect(ends, n.id)
            self._jump([(n.id, 'next')], 'break')
            return []

        if isinstance(s, ast.Continue):
            n = self._new('stmt', s)
            self._connect(ends, n.id)
            self._jump([(n.id, 'next')], 'continue')
            return []

        if isinstance(s, ast.Assert):
            n = self._new('stmt', s)
            self._connect(ends, n.id)
            self._edge(n.id, self._exc_dst(self._exc_target[-1], s), 'exc')
            return [(n.id, 'next')]

        if hasattr(ast, 'Match') and isinstance(s, ast.Match):
            n = self._new('stmt', s.subject)
            self._connect(ends, n.id)
            out = []
            for c in s.cases:
                out += self._block(c.body, [(n.id, 'next')])
            return out + [(n.id, 'next')]

        # simple statement (incl. nested def / class: treated as one node)
        n = self._new('stmt', s)
        self._connect(ends, n.id)
        if not isinstance(s, (ast.FunctionDef, ast.ClassDef,
                              ast.AsyncFunctionDef)):
            self._maybe_exc(n, s)
        return [(n.id, 'next')]

    # --------------------------------------------------------------------------
    def _try(self, s, ends):

        has_finally = bool(s.finalbody)
        outer_exc   = self._exc_target[-1]
        fin_cache   = {}

        # finally builder: returns dangling ends after a *copy* of finalbody
        # for continuation `kind`; for 'exc' the copy leads to the outer
        # exception target itself
        def build(in_ends, kind):
            saved = (self._loops, self._tries, self._withs, self._exc_target,
                     self._frames)
            # the finally body runs in the context *outside* this try
            self._tries = outer_tries
            self._loops = outer_loops
            self._withs = outer_withs
            self._exc_target = outer_exc_stack
            self._frames = outer_frames
            try:
                if kind not in fin_cache:
                    j = self._new('join', None)
                    fin_cache[kind] = (j.id, self._block(s.finalbody,
                                                         [(j.id, 'next')]))
                    if kind == 'exc':
                        self._connect(fin_cache[kind][1],
                                      self._exc_dst(outer_exc, None))
                jid, fends = fin_cache[kind]
                self._connect(in_ends, jid)
            finally:
                (self._loops, self._tries, self._withs, self._exc_target,
                 self._frames) = saved
            if kind == 'exc':
                return []
            return list(fends) if kind in ('return', 'break', 'continue',
                                           'normal') else []

        outer_tries     = self._tries
        outer_loops     = self._loops
        outer_withs     = self._withs
        outer_exc_stack = list(self._exc_target)
        outer_frames    = list(self._frames)

        # where do uncaught exceptions of this try go?
        if has_finally:
            fj = self._new('join', None)          # entry of exceptional copy
            build([(fj.id, 'next')], 'exc')
            uncaught = fj.id
            frame = {'type': 'finally', 'build': None}

            def fbuild(in_ends, kind):
                # each jump kind gets its own copy; continue routing outward
                return build(in_ends, kind)
            frame['build'] = fbuild
            self._frames.append(frame)
        else:
            uncaught = outer_exc

        out = []
        if s.handlers:
            tframe = _TryFrame(s, uncaught,
                               (outer_loops, outer_tries, outer_withs))
            for h in s.handlers:
                hn = self._new('handler', h)
                if h.type is None:
                    names = None
                else:
                    names = [unparse(t) for t in
                             (h.type.elts if isinstance(h.type, ast.Tuple)
                              else [h.type])]
                tframe.handlers.append((hn.id, names))
            # body
            self._tries = outer_tries + (s,)
            self._exc_target.append(tframe)
            body_ends = self._block(s.body, ends)
            self._exc_target.pop()
            self._tries = outer_tries
            # handlers: exceptions inside a handler go to `uncaught`
            self._exc_target.append(uncaught)
            for (hid, names), h in zip(tframe.handlers, s.handlers):
                out += self._block(h.body, [(hid, 'next')])
            self._exc_target.pop()
            self._tries = outer_tries
        else:
            self._tries = outer_tries + (s,)
            self._exc_target.append(uncaught)
            body_ends = self._block(s.body, ends)
            self._exc_target.pop()
            self._tries = outer_tries

        if s.orelse:
            self._exc_target.append(uncaught)
            body_ends = self._block(s.orelse, body_ends)
            self._exc_target.pop()

        out = body_ends + out

        if has_finally:
            self._frames.pop()
            out = build(out, 'normal') if out else []
        return out

    # --------------------------------------------------------------------------
    # queries
    def nodes_of(self, ast_node):
        return self._by_ast.get(id(ast_node), [])

    def node_of_stmt(self, stmt):
        """CFG nodes whose ast is `stmt` (several when inside a duplicated
        finally)"""
        return self.nodes_of(stmt)

    def stmt_nodes(self):
        return [n for n in self.nodes if n.ast is not None]

    def find(self, pred):
        return [n for n in self.nodes if n.ast is not None and pred(n)]

    def reachable(self, start, skip_nodes=(), skip_edges=(), labels=None,
                  no_back=False):
        """ids reachable from `start` (id or iterable of ids) without entering
        `skip_nodes` and without using `skip_edges` ((src, label) pairs or Edge
        objects)"""
        skip_nodes = set(skip_nodes)
        se = set()
        for e in skip_edges:
            if isinstance(e, Edge):
                se.add((e.src, e.dst, e.label))
            else:
                se.add(e)
        todo = [start] if isinstance(start, int) else list(start)
        seen = set()
        while todo:
            n = todo.pop()
            if n in seen or n in skip_nodes:
                continue
            seen.add(n)
            for e in self.succ[n]:
                if (e.src, e.dst, e.label) in se or (e.src, e.label) in se:
                    continue
                if labels is not None and e.label not in labels:
                    continue
                if no_back and e.back:
                    continue
                todo.append(e.dst)
        return seen

    def all_paths_through(self, src, dst, via, **kw):
        """True iff every path src ->* dst passes a node in `via`"""
        r = self.reachable(src, skip_nodes=set(via) - {src}, **kw)
        return dst not in r

    def dominated_by_edge(self, target, test_node, label, start=None):
        """True iff `target` is unreachable from start (default entry) once
        edge (test_node, label) is removed: every path to target takes it"""
        start = self.entry.id if start is None else start
        r = self.reachable(start, skip_edges=[(test_node, label)])
        return target not in r

    def dump(self):
        out = []
        for n in self.nodes:
            out.append('%r -> %s' % (n, ', '.join(
                '%s%s:%d' % (e.label, '*' if e.back else '', e.dst)
                for e in self.succ[n.id])))
        return '\n'.join(out)


_cache = {}


def cfg_of(func_info, exc_everywhere=False):
    key = (id(func_info.node), exc_everywhere)
    if key not in _cache:
        _cache[key] = CFG(func_info.node, exc_everywhere)
    return _cache[key]
