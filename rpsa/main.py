"""CLI: ./check <property id> [--tier quick|thorough] [--root DIR]

exit 0  property held on everything analysed (KNOWN-FINDING lines possible)
exit 1  VIOLATION property=<id> replay=<path>
exit 2  ANALYSIS-ERROR (broken anchor, rule with too few instances, traceback)
"""

import os
import sys
import importlib
import traceback

HERE = os.path.dirname(os.path.dirname(os.path.abspath(__file__)))
sys.path.insert(0, HERE)

from rpsa.model import Program, AnalysisError          # noqa: E402
from rpsa.report import Report                          # noqa: E402


def run_property(pid, tier='quick', root='/repo', overlay=None, quiet=False,
                 prog=None):
    """run the rules of one property; returns the Report (not finished)"""
    mod = importlib.import_module('rpsa.rules.%s' % pid.lower())
    if prog is None:
        prog = Program(root, overlay=overlay)
    rep = Report(pid, tier, root, quiet=quiet)
    mod.run(prog, rep, tier)
    return rep


def main(argv):
    args = list(argv)
    tier = os.environ.get('VERIF_TIER') or 'quick'
    root = '/repo'
    pid  = None
    selftest = False
    while args:
        a = args.pop(0)
        if a == '--tier':
            tier = args.pop(0)
        elif a == '--root':
            root = args.pop(0)
        elif a == '--replay':
            print(open(args.pop(0)).read())
            return 0
        elif a == '--selftest':
            selftest = True
        else:
            pid = a
    if not pid:
        print(__doc__)
        return 2
    try:
        if selftest:
            from rpsa import selftest as st
            return st.main(pid, root)
        rep = run_property(pid, tier, root)
        if tier == 'thorough':
            from rpsa import selftest as st
            st.attach(pid, root, rep)
        return rep.finish()
    except AnalysisError as e:
        print('ANALYSIS-ERROR property=%s %s' % (pid, e))
        return 2
    except Exception:                                   # noqa
        traceback.print_exc()
        print('ANALYSIS-ERROR property=%s unexpected exception (see traceback)'
              % pid)
        return 2


if __name__ == '__main__':
    sys.exit(main(sys.argv[1:]))
