"""CLI: ./check <property id> [--tier quick|thorough] [--root DIR]

exit 0  property held on everything analysed (KNOWN-FINDING lines possible)
exit 1  VIOLATION property=<id> replay=<path>
exit 2  ANALYSIS-ERROR (broken anchor, rule with too few instances, traceback)
"""

import os
import sys
import importlib
import traceback

HERE = os.path.dirname(os.path.dirname(os.path.abspath(__file__)))
sys.path.insert(0, HERE)

from rpsa.model import Program, AnalysisError          # noqa: E402
from rpsa.report import Report                          # noqa: E402


def run_property(pid, tier='quick', root='/repo', overlay=None, quiet=False,
                 prog=None):
    """run the rules of one property; returns the Report (not finished)"""
    mod = importlib.import_module('rpsa.rules.%s' % pid.lower())
    if prog is None:
        prog = Program(root, overlay=overlay)
    rep = Report(pid, tier, root, quiet=quiet)
    mod.run(prog, rep, tier)
    # shared rule: sibling consistency on the property's anchor files
    from rpsa import siblings
    rep.attempt(siblings.run, prog, rep, 'R%s.S' % pid[1:])
    return rep


def _is_known(pid):
    from rpsa.report import load_known, norm
    known = [k for k in load_known().get('known', []) if k['property'] == pid]

    def is_known(f):
        return any(k.get('rule') == f.rule and k.get('where') == f.where and
                   norm(k.get('construct', '')) == f.construct for k in known)
    return is_known


def _try(pid, tier, root, prog, quiet):
    """(report, None) or (None, AnalysisError).  Rules run through
    Report.attempt may fail singly: if the remaining rules report a finding
    that is not a known one, that finding stands (a violation is a violation
    whatever else could not be analysed); otherwise the view is not
    analysable."""
    try:
        rep = run_property(pid, tier, root, quiet=quiet, prog=prog)
        try:
            rep.verify_minimums()
        except AnalysisError as e:
            # too few instances of one rule: the view is not fully analysed;
            # findings of the other rules stand all the same (decided below)
            rep.errors.append(e)
        if rep.errors:
            is_known = _is_known(pid)
            if not any(not is_known(f) for f in rep.findings):
                return None, rep.errors[0]
            rep.partial = True
        return rep, None
    except AnalysisError as e:
        return None, e


def _fkey(f, by_file=False):
    return (f.rule, f.where.split('::')[0] if by_file else f.where)


def _in_new_helper(f):
    from rpsa.normalize import inventory
    if '::' not in f.where:
        return False
    rel, qual = f.where.split('::', 1)
    inv = inventory()
    return rel in inv and qual not in inv[rel]


def run_consensus(pid, tier='quick', root='/repo', overlay=None, quiet=False,
                  prog=None):
    """Run the rules on the tree as it is (view 0).  If that view reports
    findings or cannot be analysed, run them again on the normalised tree
    (views 1, 2: freshly extracted helpers inlined, hoisted tests / cached
    attributes propagated, table dispatch expanded; comprehensions desugared
    - all behaviour preserving).  A finding is reported only if every
    analysable view has it (same rule, same function); if a view cannot be
    analysed the others decide; if none can, the AnalysisError of view 0 is
    raised."""
    if prog is None:
        prog = Program(root, overlay=overlay)
    rep0, err0 = _try(pid, tier, root, prog, quiet)
    is_known = _is_known(pid)
    if err0 is None and all(is_known(f) for f in rep0.findings):
        rep0.stats['views'] = 1
        return rep0
    from rpsa.normalize import normalized_program
    views = []          # (name, report or None, error or None)
    nstats = {}
    for name, desugar in (('inline+propagate', False),
                          ('inline+propagate+desugar', True)):
        try:
            progn, nstats = normalized_program(prog, desugar=desugar)
            repn, errn = _try(pid, tier, root, progn, True)
        except AnalysisError as e:
            repn, errn = None, e
        except Exception as e:                              # noqa
            repn, errn = None, AnalysisError(
                'normalised view failed: %r' % e)
        views.append((name, repn, errn))
    good = [(n, r) for n, r, e in views if e is None]
    if err0 is not None and not good:
        raise err0
    if err0 is not None:
        # verdict from the normalised views: findings present in all of them
        name, base = good[0]
        base.quiet = quiet
        base.stats['views'] = 1 + len(views)
        base.stats['normalisation'] = nstats
        base.info('consensus', pid, 'view 0 (tree as it is) could not be '
                  'analysed (%s); verdict taken from the normalised view(s) %s'
                  % (str(err0)[:200], [n for n, r in good]))
        others = [{_fkey(f) for f in r.findings} | {_fkey(f, True)
                                                    for f in r.findings}
                  for n, r in good[1:]]
        base.findings = [f for f in base.findings if is_known(f) or all(
            _fkey(f) in o for o in others)]
        return base
    rep0.stats['views'] = 1 + len(views)
    rep0.stats['normalisation'] = nstats
    for n, r, e in views:
        if e is not None:
            rep0.info('consensus', pid, 'normalised view %s could not be '
                      'analysed (%s)' % (n, str(e)[:200]))
    seen = [{_fkey(f) for f in r.findings} | {_fkey(f, True)
                                              for f in r.findings}
            for n, r in good]
    keep = []
    for f in rep0.findings:
        # a finding located in a freshly extracted helper moves to the caller
        # when the helper is inlined: compare those by file only
        key = _fkey(f, _in_new_helper(f))
        if is_known(f) or all(key in sset for sset in seen):
            keep.append(f)
        else:
            rep0.info('consensus', f.where, 'finding of %s not confirmed in '
                      'a normalised view (shape of the code, not its '
                      'behaviour): %s' % (f.rule, f.message[:200]), f.loc)
            c = rep0.counts.get(f.rule)
            if c:
                c[1] += 1
    rep0.findings = keep
    # rules that could not be evaluated in view 0 (their recogniser stopped:
    # no obligation counted) are decided by the normalised views alone
    if rep0.errors and good:
        blind = {rid for rid in set(rep0.rules) | {f.rule for n, r in good
                                                    for f in r.findings}
                 if rep0.counts.get(rid, [0, 0])[0] == 0}
        name, base = good[0]
        others = [{_fkey(f) for f in r.findings} | {_fkey(f, True)
                                                    for f in r.findings}
                  for n, r in good[1:]]
        have = {f.key for f in rep0.findings}
        for f in base.findings:
            if f.rule in blind and f.key not in have and (
                    is_known(f) or all(_fkey(f) in o or _fkey(f, True) in o
                                       for o in others)):
                rep0.findings.append(f)
                rep0.info('consensus', f.where, 'finding of %s taken from '
                          'the normalised view(s): the rule could not be '
                          'evaluated on the tree as it is' % f.rule, f.loc)
    return rep0


def main(argv):
    args = list(argv)
    tier = os.environ.get('VERIF_TIER') or 'quick'
    root = '/repo'
    pid  = None
    selftest = False
    while args:
        a = args.pop(0)
        if a == '--tier':
            tier = args.pop(0)
        elif a == '--root':
            root = args.pop(0)
        elif a == '--replay':
            print(open(args.pop(0)).read())
            return 0
        elif a == '--selftest':
            selftest = True
        else:
            pid = a
    if not pid:
        print(__doc__)
        return 2
    try:
        if selftest:
            from rpsa import selftest as st
            return st.main(pid, root)
        rep = run_consensus(pid, tier, root)
        if tier == 'thorough':
            from rpsa import selftest as st
            st.attach(pid, root, rep)
        return rep.finish()
    except AnalysisError as e:
        print('ANALYSIS-ERROR property=%s %s' % (pid, e))
        return 2
    except Exception:                                   # noqa
        traceback.print_exc()
        print('ANALYSIS-ERROR property=%s unexpected exception (see traceback)'
              % pid)
        return 2


if __name__ == '__main__':
    sys.exit(main(sys.argv[1:]))
