"""rpsa - radical.pilot static analysis.

Pure standard library.  Nothing under /repo is ever imported or executed; the
package is parsed with `ast` on every run.
"""

__all__ = ['model', 'cfg', 'flow', 'report']
