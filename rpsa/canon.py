"""Canonical form of the parsed sources (applied to every module in every view).

Python offers several spellings for one meaning.  The rules match guards by
control dependence and polarity, values by definition and calls by resolved
callee - but each recogniser was written against the spelling today's tree
uses.  This pass maps equivalent spellings onto ONE canonical spelling before
any rule looks at the tree, so that a rewrite between them can neither raise an
alarm nor hide a violation.  Every rewrite is semantics preserving for the
analysed program (noted where it is only so for the analysis):

  C == a, C != a, C < a ...        ->  a == C, a != C, a > C   (constant-like
                                       operand on the right; comparison
                                       operators of the builtin types are
                                       symmetric)
  not a in b / not a is b          ->  a not in b / a is not b
  not (a == b), not (a in b) ...   ->  a != b, a not in b   (single comparison;
                                       only ==, !=, in, is and their negations
                                       - `not a < b` is kept: ordering of
                                       unknown types need not be total)
  not not a                        ->  a     (in test position only)
  x = x + e / x = x - e            ->  x += e / x -= e   (same target path; `+`
                                       only when e is a number for sure: for a
                                       list `x = x + e` re-binds while `x += e`
                                       mutates the shared object in place)
  if c: ...jump  else: REST        ->  if c: ...jump ; REST     (jump = return,
                                       raise, continue, break)
  a, b = x, y                      ->  a = x ; b = y   (names on the left,
                                       simple operands that read no target)
  x = A if c else B                ->  if c: x = A  else: x = B   (also
                                       `return A if c else B`; only when the
                                       statement is exactly that)

Line numbers of the original statements are kept (`copy_location`).
"""

import ast
import copy


def _loc(new, old):
    return ast.copy_location(new, old)


def _constlike(e):
    if isinstance(e, ast.Constant):
        return True
    if isinstance(e, ast.Attribute) and isinstance(e.value, ast.Name) and \
            e.attr.isupper() and e.value.id in ('rps', 'rpc', 'rpcs', 'rp'):
        return True
    if isinstance(e, ast.Name) and e.id.isupper() and len(e.id) > 1:
        return True
    if isinstance(e, (ast.List, ast.Tuple, ast.Set)) and e.elts and \
            all(_constlike(x) for x in e.elts):
        return True
    return False


_MIRROR = {ast.Eq: ast.Eq, ast.NotEq: ast.NotEq, ast.Lt: ast.Gt,
           ast.Gt: ast.Lt, ast.LtE: ast.GtE, ast.GtE: ast.LtE}
_NEGATE = {ast.Eq: ast.NotEq, ast.NotEq: ast.Eq, ast.In: ast.NotIn,
           ast.NotIn: ast.In, ast.Is: ast.IsNot, ast.IsNot: ast.Is}


def _numeric(e):
    """operand that is a number for sure: `x = x + e` and `x += e` then mean
    the same (for a list the first re-binds, the second mutates in place)"""
    if isinstance(e, ast.Constant):
        return isinstance(e.value, (int, float)) and \
            not isinstance(e.value, bool)
    if isinstance(e, ast.Call) and isinstance(e.func, ast.Name) and \
            e.func.id in ('len', 'int', 'float', 'abs', 'sum'):
        return True
    if isinstance(e, ast.BinOp) and isinstance(e.op, (ast.Mult, ast.Div,
                                                     ast.FloorDiv, ast.Mod)):
        return True
    return False


def _jumps(body):
    if not body:
        return False
    s = body[-1]
    if isinstance(s, (ast.Return, ast.Raise, ast.Continue, ast.Break)):
        return True
    if isinstance(s, ast.If) and s.orelse:
        return _jumps(s.body) and _jumps(s.orelse)
    return False


def _same(a, b):
    return ast.dump(a) == ast.dump(b)


def _as_load(t):
    x = copy.deepcopy(t)
    for n in ast.walk(x):
        if hasattr(n, 'ctx'):
            n.ctx = ast.Load()
    return x


class _Expr(ast.NodeTransformer):

    def visit_Compare(self, node):
        self.generic_visit(node)
        if len(node.ops) == 1 and type(node.ops[0]) in _MIRROR and \
                _constlike(node.left) and not _constlike(node.comparators[0]):
            return _loc(ast.Compare(left=node.comparators[0],
                                    ops=[_MIRROR[type(node.ops[0])]()],
                                    comparators=[node.left]), node)
        return node

    def visit_UnaryOp(self, node):
        self.generic_visit(node)
        if not isinstance(node.op, ast.Not):
            return node
        x = node.operand
        if isinstance(x, ast.Compare) and len(x.ops) == 1 and \
                type(x.ops[0]) in _NEGATE:
            return _loc(ast.Compare(left=x.left,
                                    ops=[_NEGATE[type(x.ops[0])]()],
                                    comparators=x.comparators), node)
        return node


def _strip_notnot(test):
    while isinstance(test, ast.UnaryOp) and isinstance(test.op, ast.Not) and \
            isinstance(test.operand, ast.UnaryOp) and \
            isinstance(test.operand.op, ast.Not):
        test = test.operand.operand
    return test


class _Stmt(ast.NodeTransformer):

    def _block(self, body):
        out = []
        for s in body:
            r = self.visit(s)
            if isinstance(r, list):
                out.extend(r)
            elif r is not None:
                out.append(r)
        # flatten `else` after a jumping `if` body
        flat = []
        for s in out:
            flat.append(s)
        res = []
        i = 0
        while i < len(flat):
            s = flat[i]
            if isinstance(s, ast.If) and s.orelse and _jumps(s.body):
                rest = s.orelse
                s.orelse = []
                res.append(s)
                # the former else arm continues the block
                flat[i + 1:i + 1] = rest
            else:
                res.append(s)
            i += 1
        return res

    def generic_visit(self, node):
        for f in ('body', 'orelse', 'finalbody'):
            b = getattr(node, f, None)
            if isinstance(b, list) and b and isinstance(b[0], ast.stmt):
                setattr(node, f, self._block(b))
        if isinstance(node, ast.Try):
            for h in node.handlers:
                h.body = self._block(h.body)
        if isinstance(node, getattr(ast, 'Match', ())):
            for c in node.cases:
                c.body = self._block(c.body)
        return node

    def visit_If(self, node):
        node.test = _strip_notnot(node.test)
        self.generic_visit(node)
        return node

    def visit_While(self, node):
        node.test = _strip_notnot(node.test)
        self.generic_visit(node)
        return node

    def visit_Assign(self, node):
        if len(node.targets) == 1:
            t, v = node.targets[0], node.value
            # a, b = x, y  ->  a = x ; b = y   (plain names on the left, simple
            # operands on the right which do not read a target)
            if isinstance(t, (ast.Tuple, ast.List)) and \
                    isinstance(v, (ast.Tuple, ast.List)) and \
                    len(t.elts) == len(v.elts) and \
                    all(isinstance(x, ast.Name) for x in t.elts) and \
                    all(isinstance(x, (ast.Name, ast.Constant, ast.Attribute))
                        or (isinstance(x, ast.Call) and not x.args and
                            not x.keywords and isinstance(x.func, ast.Name)
                            and x.func.id in ('list', 'dict', 'set'))
                        or (isinstance(x, (ast.List, ast.Dict, ast.Set)) and
                            not ast.dump(x).count('Name('))
                        for x in v.elts):
                tnames = {x.id for x in t.elts}
                reads = {n.id for x in v.elts for n in ast.walk(x)
                         if isinstance(n, ast.Name)}
                if not (tnames & reads) and len(tnames) == len(t.elts):
                    return [_loc(ast.Assign(targets=[a], value=b), node)
                            for a, b in zip(t.elts, v.elts)]
            if isinstance(t, (ast.Name, ast.Attribute, ast.Subscript)) and \
                    isinstance(v, ast.BinOp) and \
                    isinstance(v.op, (ast.Add, ast.Sub)) and \
                    _same(_as_load(t), v.left) and (
                        isinstance(v.op, ast.Sub) or _numeric(v.right)):
                return _loc(ast.AugAssign(target=t, op=v.op, value=v.right),
                            node)
            if isinstance(v, ast.IfExp) and isinstance(t, (ast.Name,
                                                           ast.Attribute)):
                a = _loc(ast.Assign(targets=[t], value=v.body), node)
                b = _loc(ast.Assign(targets=[copy.deepcopy(t)],
                                    value=v.orelse), node)
                r = _loc(ast.If(test=v.test, body=[a], orelse=[b]), node)
                return self.visit_If(r)
        return node

    def visit_Return(self, node):
        v = node.value
        if isinstance(v, ast.IfExp):
            a = _loc(ast.Return(value=v.body), node)
            b = _loc(ast.Return(value=v.orelse), node)
            r = _loc(ast.If(test=v.test, body=[a], orelse=[b]), node)
            return self.visit_If(r)
        return node


def canonicalize(tree):
    """in place; returns the tree"""
    tree = _Expr().visit(tree)
    st = _Stmt()
    st.generic_visit(tree)          # Module body
    ast.fix_missing_locations(tree)
    return tree
