"""Sibling consistency: the "forgot to rename" check (Li et al., CP-Miner 2004;
Engler et al. 2001 "cross-check siblings").

The code base handles its kinds in parallel fragments: cores / gpus, lfs / mem,
stdout / stderr, src / tgt, pub / sub, pilot / task ...  Two sibling fragments
(adjacent statements of one block, the arms of one `if`, consecutive entries of
a dict literal or of a table) that have the SAME
syntactic structure and differ by one systematic renaming `a -> b` (at two or
more aligned positions, compared word by word: `stdout_file` / `stderr_file`
rename the word `stdout` to `stderr`) must apply that renaming everywhere: an
aligned position where BOTH fragments say `a` is the wrong one of two similar
variables / keys / constants - the second fragment debits, tests, reads or
writes the first fragment's kind.

Why this is a necessary condition of the properties and not a style lint: each
property's accounting is per kind (what is taken from a kind is given back to
that kind; the kind tested free is the kind marked; the context that completes
the target is the target's; the bridge advertised for a channel is that
channel's).  The rule is evaluated only inside the functions the property's
other rules analyse.  It fires only on the exact signature (identical
structure, one dominant renaming, no other difference, a kept `a`), so a
rewrite that changes structure makes it abstain rather than guess.

Fragments of the unchanged tree that carry the signature for a reason are
listed in EXEMPT with that reason (confirmed by reading).
"""

import ast
import re

from .model import unparse, walk

_WORD = re.compile(r'[A-Za-z]+|\d+')
_IDENT = re.compile(r'^[A-Za-z_][A-Za-z0-9_.]*$')

# (relative file, function qualname, rename 'a->b', kept word) -> reason
EXEMPT = {
}


def _words(s):
    return _WORD.findall(s)


def _leaves(a, b, out):
    """walk two trees in lockstep; append aligned leaf pairs to `out`;
    False if the structures differ"""
    if type(a) is not type(b):
        return False
    if isinstance(a, ast.Name):
        out.append((a.id, b.id, a))
        return True
    if isinstance(a, ast.Attribute):
        out.append((a.attr, b.attr, a))
        return _leaves(a.value, b.value, out)
    if isinstance(a, ast.Constant):
        if isinstance(a.value, str) and isinstance(b.value, str):
            # only identifier-like strings (keys, names) take part in the
            # word-wise comparison; messages and format strings count as one
            # opaque token each
            if _IDENT.match(a.value) and _IDENT.match(b.value):
                out.append((a.value, b.value, a))
            elif a.value != b.value:
                out.append(('<text 1>', '<text 2 other>', a))
            return True
        if type(a.value) is not type(b.value):
            return False
        if a.value != b.value:
            out.append((repr(a.value), repr(b.value), a))
        return True
    if isinstance(a, ast.keyword):
        if (a.arg is None) != (b.arg is None):
            return False
        if a.arg is not None:
            out.append((a.arg, b.arg, a))
        return _leaves(a.value, b.value, out)
    if isinstance(a, ast.arg):
        out.append((a.arg, b.arg, a))
        return True
    for f in a._fields:
        x, y = getattr(a, f, None), getattr(b, f, None)
        if isinstance(x, list):
            if not isinstance(y, list) or len(x) != len(y):
                return False
            for p, q in zip(x, y):
                if isinstance(p, ast.AST):
                    if not _leaves(p, q, out):
                        return False
                elif p != q:
                    return False
        elif isinstance(x, ast.AST):
            if not isinstance(y, ast.AST) or not _leaves(x, y, out):
                return False
        elif f in ('ctx', 'lineno', 'col_offset', 'end_lineno',
                   'end_col_offset', 'type_comment', 'kind'):
            continue
        elif x != y:
            # operators are classes (compared by type above); ints, strings
            if isinstance(x, ast.AST) or isinstance(y, ast.AST):
                return False
            return False
    return True


def compare(a, b):
    """None, or (rename 'wa->wb', kept word, node in b's counterpart a where
    the word was kept, number of renamed positions)"""
    out = []
    if isinstance(a, list):
        if len(a) != len(b):
            return None
        for p, q in zip(a, b):
            if not _leaves(p, q, out):
                return None
    elif not _leaves(a, b, out):
        return None
    ren = {}
    same = {}
    other = 0
    # a kept name only counts where it denotes a value of the kind: not as
    # the receiver of a subscript / attribute / call (`task[...]`, `self.x`,
    # `self.register_request(...)`) and not as a keyword name (API)
    recv = set()
    for root in (a if isinstance(a, list) else [a]):
        for x in ast.walk(root):
            if isinstance(x, (ast.Subscript, ast.Attribute)):
                recv.add(id(x.value))
            elif isinstance(x, ast.Call):
                recv.add(id(x.func))
            elif isinstance(x, ast.keyword):
                recv.add(id(x))
    renamed_full = {(la, type(node).__name__) for la, lb, node in out
                    if la != lb}
    for la, lb, node in out:
        if la == lb:
            # a receiver only counts when that very name is renamed as a whole
            # at another position (`stdout_file[0]` next to `stderr_file`)
            if id(node) in recv and \
                    (la, type(node).__name__) not in renamed_full:
                continue
            for w in set(_words(la)):
                same.setdefault(w, []).append(node)
            continue
        wa, wb = _words(la), _words(lb)
        if len(wa) == len(wb):
            d = [(p, q) for p, q in zip(wa, wb) if p != q]
            if len(d) == 1:
                ren.setdefault(d[0], []).append(node)
                continue
        other += 1
    if other or not ren:
        return None
    # the renamings must form a function in both directions
    if len({wa for wa, wb in ren}) != len(ren) or \
            len({wb for wa, wb in ren}) != len(ren):
        return None
    total = sum(len(v) for v in ren.values())
    if total < 2 or len(ren) > 3:
        return None
    for (wa, wb), sites in sorted(ren.items()):
        if wa in same and wb not in same:
            return ('%s->%s' % (wa, wb), wa, same[wa][0], total)
    return None


def _pairs(fn):
    """candidate sibling fragments of one function: (a, b, anchor for b)"""
    def blocks(node):
        for f in ('body', 'orelse', 'finalbody'):
            b = getattr(node, f, None)
            if isinstance(b, list) and b and isinstance(b[0], ast.stmt):
                yield b
        for h in getattr(node, 'handlers', []) or []:
            yield h.body

    todo = [fn]
    while todo:
        n = todo.pop()
        for blk in blocks(n):
            for i, s in enumerate(blk):
                if not isinstance(s, (ast.FunctionDef, ast.ClassDef,
                                      ast.AsyncFunctionDef)):
                    todo.append(s)
                for j in (i + 1, i + 2):
                    if j < len(blk) and type(blk[j]) is type(s):
                        yield s, blk[j], blk[j]
                # runs of k statements repeated: [s_i..s_i+k) vs [s_i+k..)
                for k in (2, 3):
                    if i + 2 * k <= len(blk):
                        yield blk[i:i + k], blk[i + k:i + 2 * k], blk[i + k]
        if isinstance(n, ast.If) and n.orelse and n.body:
            if len(n.orelse) == 1 and isinstance(n.orelse[0], ast.If):
                yield n.body, n.orelse[0].body, n.orelse[0]
            else:
                yield n.body, n.orelse, n.orelse[0]
    for x in walk(fn):
        if isinstance(x, ast.Dict):
            ent = [(k, v) for k, v in zip(x.keys, x.values) if k is not None]
            for i in range(len(ent) - 1):
                for j in (i + 1, i + 2):
                    if j < len(ent):
                        yield (ast.Tuple(elts=list(ent[i]), ctx=ast.Load()),
                               ast.Tuple(elts=list(ent[j]), ctx=ast.Load()),
                               ent[j][1])
        elif isinstance(x, (ast.List, ast.Tuple)) and len(x.elts) >= 2 and \
                all(isinstance(e, (ast.Tuple, ast.List, ast.Dict, ast.Call))
                    for e in x.elts):
            for i in range(len(x.elts) - 1):
                yield x.elts[i], x.elts[i + 1], x.elts[i + 1]


def scan(finfo):
    """[(rename, kept word, loc node, text of the second fragment)]"""
    found = []
    seen = set()
    for a, b, anchor in _pairs(finfo.node):
        r = compare(a, b)
        if r is None:
            continue
        ren, kept, node, n = r
        key = (ren, kept, getattr(anchor, 'lineno', 0))
        if key in seen:
            continue
        seen.add(key)
        txt = unparse(b) if not isinstance(b, list) else \
            '; '.join(unparse(s) for s in b)
        found.append((ren, kept, anchor, txt, n))
    return found


_CONTROL = """
def f(self, slot, node, busy):
    if slot['lfs']:
        if busy:
            node['lfs'] -= slot['lfs']
        else:
            node['lfs'] += slot['lfs']
    if slot['mem']:
        if busy:
            node['mem'] -= slot['lfs']
        else:
            node['mem'] += slot['mem']
"""


def _positive_control():
    class F:
        pass
    f = F()
    f.node = ast.parse(_CONTROL).body[0]
    hits = scan(f)
    return len(hits) == 1 and hits[0][0] == 'lfs->mem'


def anchor_files(pid):
    """python files of the package named by the property's anchors"""
    import json
    import os
    here = os.path.dirname(os.path.dirname(os.path.abspath(__file__)))
    out = []
    with open(os.path.join(here, 'properties.jsonl')) as fh:
        for line in fh:
            line = line.strip()
            if not line:
                continue
            d = json.loads(line)
            if d.get('id') != pid:
                continue
            anc = d.get('anchors') or {}
            if isinstance(anc, str):
                try:
                    anc = ast.literal_eval(anc)
                except Exception:                            # noqa
                    anc = {}
            for f in anc.get('files', []):
                pre = 'src/radical/pilot/'
                if f.startswith(pre) and f.endswith('.py'):
                    out.append(f[len(pre):])
    return out


def run(prog, rep, rid):
    """evaluate the rule on every function of the property's anchor files"""
    from .model import AnalysisError
    rep.rule(rid, 'sibling fragments (adjacent statements, if-arms, table '
             'entries) that differ by one systematic renaming apply it at '
             'every aligned position (no kept name of the other kind)',
             minimum=1)
    if not _positive_control():
        raise AnalysisError('%s: the embedded positive example (lfs/mem '
                            'debit with a kept `lfs`) is not recognised'
                            % rid)
    files = anchor_files(rep.prop)
    if not files:
        raise AnalysisError('%s: no anchor files for %s' % (rid, rep.prop))
    nfun = 0
    for rel in files:
        m = prog.modules.get(rel)
        if m is None:
            # a file named by the anchors has vanished: the other rules will
            # say so; nothing to scan here
            continue
        funcs = list(m.funcs.values())
        for c in m.classes.values():
            funcs += list(c.methods.values())
        clean = True
        for f in funcs:
            nfun += 1
            for ren, kept, anchor, txt, cnt in scan(f):
                if (rel, f.qual, ren, kept) in EXEMPT:
                    rep.info(rid, f, 'exempt: %s' % EXEMPT[(rel, f.qual, ren,
                                                           kept)])
                    continue
                clean = False
                wa, wb = ren.split('->')
                rep.bad(rid, f, '%s keeps %s' % (ren, kept),
                        '%s: a fragment that is the `%s` twin of its sibling '
                        '(renamed at %d aligned positions) still says `%s` '
                        'at one position: `%s` - it reads / tests / updates '
                        'the other kind' % (f.qual, wb, cnt, wa, txt[:160]),
                        loc=f.loc(anchor),
                        history='any input that exercises the `%s` fragment: '
                        'it acts on `%s`' % (wb, wa))
        if clean:
            rep.ok(rid, rel, 'no sibling fragment in the %d functions of %s '
                   'keeps a name of the other kind' % (len(funcs), rel))
    rep.stat('sibling_functions_scanned', nfun)
    return nfun
