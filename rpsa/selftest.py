"""Mutation matrix and silence variants (DESIGN 2.6).

Each rules module may export

    MUTATIONS = [dict(name=..., edits=[(relpath, old, new), ...],
                      rules=('R01.2',), note='...')]
    SILENT    = [dict(name=..., edits=[...], note='...')]

`old` must occur exactly once in the file (else the variant is *skipped*: the
site was edited by somebody else).  Variants are applied through the in-memory
overlay - nothing is written to disk.  A mutant is *killed* when the property's
rules report a finding that the unmodified tree does not have and whose rule id
is in `rules`; it is *broken* when the analysis stops with ANALYSIS-ERROR
(exit 2 - not a silent pass, but not a kill).  A silence variant must produce
no new finding and no analysis error.
"""

import os
import sys
import importlib
import traceback
import concurrent.futures as cf

from .model import Program, AnalysisError, PKG


def _load(pid):
    mod = importlib.import_module('rpsa.rules.%s' % pid.lower())
    return (list(getattr(mod, 'MUTATIONS', [])),
            list(getattr(mod, 'SILENT', [])))


def make_overlay(root, edits):
    """{rel: new text} or None if an edit does not apply exactly once"""
    overlay = {}
    for rel, old, new in edits:
        if rel in overlay:
            src = overlay[rel]
        else:
            try:
                with open(os.path.join(root, PKG, rel), encoding='utf-8') as fh:
                    src = fh.read()
            except OSError:
                return None
        if '\r\n' in src and '\r\n' not in old:
            old = old.replace('\n', '\r\n')
            new = new.replace('\n', '\r\n')
        if src.count(old) != 1:
            # an edit which is already in the tree (a proposed fix that was
            # committed meanwhile) counts as applied
            if new and old not in src and src.count(new) == 1:
                overlay.setdefault(rel, src)
                continue
            return None
        overlay[rel] = src.replace(old, new)
    for rel, src in overlay.items():
        if rel.endswith('.py'):
            try:
                compile(src, rel, 'exec')
            except SyntaxError:
                return 'syntax'
    return overlay


def _keys(pid, root, overlay):
    from .main import run_consensus
    rep = run_consensus(pid, 'quick', root, overlay=overlay, quiet=True)
    return {f.key: f for f in rep.findings}


def _one(args):
    pid, root, kind, spec, base_keys = args
    name = spec['name']
    try:
        ov = make_overlay(root, spec['edits'])
        if ov is None:
            return (kind, name, 'skipped', 'site not found exactly once')
        if ov == 'syntax':
            return (kind, name, 'skipped', 'variant does not compile')
        try:
            keys = _keys(pid, root, ov)
        except AnalysisError as e:
            return (kind, name, 'broken', str(e)[:300])
        new = {k: f for k, f in keys.items() if k not in base_keys}
        if kind == 'mut':
            want = spec.get('rules')
            hit = [f for f in new.values()
                   if not want or f.rule in want or
                   any(f.rule.startswith(w) for w in want)]
            if hit:
                return (kind, name, 'killed', '%s @ %s' % (hit[0].rule,
                                                           hit[0].loc))
            if new:
                return (kind, name, 'killed-other', ', '.join(
                    sorted({f.rule for f in new.values()})))
            return (kind, name, 'MISSED', spec.get('note', ''))
        else:
            if new:
                f = list(new.values())[0]
                return (kind, name, 'FALSE-ALARM', '%s: %s' % (f.rule,
                                                               f.message[:200]))
            return (kind, name, 'silent', '')
    except Exception:
        return (kind, name, 'error', traceback.format_exc()[-600:])


def run_matrix(pid, root='/repo', jobs=None):
    muts, sil = _load(pid)
    base = _keys(pid, root, None)
    base_keys = set(base)
    work = [(pid, root, 'mut', m, base_keys) for m in muts] + \
           [(pid, root, 'sil', s, base_keys) for s in sil]
    if not work:
        return []
    jobs = jobs or min(16, max(1, len(work)))
    try:
        with cf.ProcessPoolExecutor(max_workers=jobs) as ex:
            res = list(ex.map(_one, work))
    except Exception:
        res = [_one(w) for w in work]
    return res


def summarize(res):
    out = {}
    for kind, name, status, detail in res:
        out[status] = out.get(status, 0) + 1
    return out


def attach(pid, root, rep):
    """thorough tier: run the matrix and record it in the evidence"""
    res = run_matrix(pid, root)
    s = summarize(res)
    rep.stats['selftest'] = s
    rep.stats['selftest_variants'] = len(res)
    for kind, name, status, detail in res:
        if status in ('MISSED', 'FALSE-ALARM', 'error'):
            print('SELFTEST-%s property=%s variant=%s %s' % (status, pid, name,
                                                             detail))
        rep.infos.append({'rule': 'selftest', 'where': name,
                          'message': '%s %s' % (status, detail), 'loc': kind})


def main(pid, root='/repo'):
    res = run_matrix(pid, root)
    bad = 0
    for kind, name, status, detail in res:
        print('%-4s %-12s %-52s %s' % (kind, status, name, detail[:110]))
        if status in ('MISSED', 'FALSE-ALARM', 'error', 'skipped', 'broken'):
            bad += 1
    print('selftest %s: %s' % (pid, summarize(res)))
    return 3 if bad else 0
