"""C03  Released resources come back exactly once and completely
(DESIGN 5 / C03).  R03.4 (one unschedule publication per finish path) is
decided by the C07 module and re-evaluated here."""

import ast

from ..model import (walk, dotted, call_name, kwarg, unparse, short, UNKNOWN,
                     root_name, AnalysisError, calls_in, stores_in_target)
from ..cfg import cfg_of
from ..flow import Deps, guards, must_pass, loop_slice
from .. import idioms as I
from .c01 import (sched_classes, consts, grant_paths, r01_1, BASE, CONT, JSRUN,
                  NODE, _ancestors)

NODELIST = ('resource_config.py', 'NodeList')


def _norm_target(t, alias=None):
    """access path with index expressions dropped: self.cores[c].occupation ->
    self.cores[*].occupation ; node['lfs'] -> node['lfs']"""
    parts = []
    e = t
    while True:
        if isinstance(e, ast.Attribute):
            parts.append('.' + e.attr)
            e = e.value
        elif isinstance(e, ast.Subscript):
            if isinstance(e.slice, ast.Constant) and \
                    isinstance(e.slice.value, str):
                parts.append('[%r]' % e.slice.value)
            else:
                parts.append('[*]')
            e = e.value
        elif isinstance(e, ast.Name):
            parts.append(e.id)
            break
        else:
            parts.append('?')
            break
    return ''.join(reversed(parts))


def _resolve_alias(f, expr):
    """operand with single-assignment local aliases expanded:
    lfs -> slot.lfs when `lfs = slot.lfs`"""
    if isinstance(expr, ast.Name):
        defs = [n for n in walk(f.node) if isinstance(n, ast.Assign) and
                any(isinstance(t, ast.Name) and t.id == expr.id
                    for t in n.targets)]
        if len(defs) == 1 and I.is_path(defs[0].value):
            return unparse(defs[0].value)
        # `for idx, occ in todo` over `todo = [(.., ro.occupation) for ro in
        # ..]`: the k-th name stands for the k-th element of the tuples
        stores = [n for n in walk(f.node) if isinstance(n, ast.Name) and
                  n.id == expr.id and isinstance(n.ctx, (ast.Store, ast.Del))]
        loops = [n for n in walk(f.node) if isinstance(n, ast.For) and
                 isinstance(n.target, (ast.Tuple, ast.List)) and
                 any(e is stores[0] for e in n.target.elts)] \
            if len(stores) == 1 and not defs else []
        if loops and isinstance(loops[0].iter, ast.Name):
            k = [i for i, e in enumerate(loops[0].target.elts)
                 if e is stores[0]][0]
            src = [n for n in walk(f.node) if isinstance(n, ast.Assign) and
                   any(isinstance(t, ast.Name) and t.id == loops[0].iter.id
                       for t in n.targets)]
            others = [n for n in walk(f.node) if isinstance(n, ast.Name) and
                      n.id == loops[0].iter.id and
                      isinstance(n.ctx, (ast.Store, ast.Del))]
            if len(src) == 1 and len(others) == 1 and \
                    isinstance(src[0].value, (ast.ListComp,
                                              ast.GeneratorExp)) and \
                    isinstance(src[0].value.elt, ast.Tuple) and \
                    len(src[0].value.elt.elts) == len(loops[0].target.elts) \
                    and I.is_path(src[0].value.elt.elts[k]):
                return unparse(src[0].value.elt.elts[k])
    return unparse(expr)


# ------------------------------------------------------------------------------
# the direction of a state change: which way a test on new_state points, and
# what a (possibly signed) amount evaluates to in each direction
#
def _once_bound_values(fnode, params=()):
    """local name -> value for names bound exactly once by `name = value`"""
    cnt, val = {}, {}
    for n in walk(fnode):
        if isinstance(n, ast.Name) and isinstance(n.ctx, (ast.Store, ast.Del)):
            cnt[n.id] = cnt.get(n.id, 0) + 1
        elif isinstance(n, ast.ExceptHandler) and n.name:
            cnt[n.name] = cnt.get(n.name, 0) + 1
        if isinstance(n, ast.Assign) and len(n.targets) == 1 and \
                isinstance(n.targets[0], ast.Name):
            val[n.targets[0].id] = n.value
    return {k: v for k, v in val.items() if cnt.get(k) == 1 and
            k not in params}


def _cmp_direction(prog, f, a, state, free, busy, once=None, depth=3):
    """direction implied when test expression `a` is true: True (new_state is
    BUSY), False (FREE), None (not a recognised test of the state).  The two
    valued reading of the original is kept: `!= BUSY` means FREE."""
    if isinstance(a, ast.Name) and once and a.id in once and depth:
        return _cmp_direction(prog, f, once[a.id], state, free, busy, once,
                              depth - 1)
    if isinstance(a, ast.UnaryOp) and isinstance(a.op, ast.Not):
        r = _cmp_direction(prog, f, a.operand, state, free, busy, once, depth)
        return None if r is None else not r
    if not (isinstance(a, ast.Compare) and len(a.ops) == 1):
        return None
    l, r = a.left, a.comparators[0]
    if isinstance(l, ast.Name) and l.id == state:
        other = r
    elif isinstance(r, ast.Name) and r.id == state:
        other = l
    else:
        return None
    is_eq = isinstance(a.ops[0], (ast.Eq, ast.Is))
    is_ne = isinstance(a.ops[0], (ast.NotEq, ast.IsNot))
    v = prog.fold(f.module, other)
    if not (is_eq or is_ne) or v is UNKNOWN:
        return None
    if v == busy:
        return is_eq
    if v == free:
        return not is_eq
    return None


def _state_edges(prog, f, g, state, free, busy):
    """{(test node id, label): direction on that edge}"""
    once = _once_bound_values(f.node, f.params)
    out = {}
    for n in g.nodes:
        if n.kind != 'test':
            continue
        d = _cmp_direction(prog, f, n.ast, state, free, busy, once)
        if d is not None:
            out[(n.id, 'T')] = d
            out[(n.id, 'F')] = not d
    return out


def _operator_fn(f, e):
    """'Add' / 'Sub' if expression e names operator.add / operator.sub (or
    the in-place variants), through the imports of the module"""
    d = dotted(e)
    if not d:
        return None
    imports = dict(f.module.imports)
    imports.update(f.module.local_imports(f.node))
    head, _, rest = d.partition('.')
    imp = imports.get(head)
    if not imp or imp[0] != 'ext':
        return None
    full = imp[1] + ('.' + rest if rest else '')
    return {'operator.add': 'Add', 'operator.iadd': 'Add',
            'operator.sub': 'Sub', 'operator.isub': 'Sub',
            '_operator.add': 'Add', '_operator.sub': 'Sub'}.get(full)


class _Signed:
    """evaluation of update amounts per direction for one function"""

    def __init__(self, prog, f, g, state, free, busy):
        self.prog, self.f, self.g = prog, f, g
        self.state, self.free, self.busy = state, free, busy
        self.edges = _state_edges(prog, f, g, state, free, busy)
        # edges that contradict a direction
        self.contra = {True: [k for k, v in self.edges.items() if v is False],
                       False: [k for k, v in self.edges.items() if v is True]}
        self.reach = {pol: g.reachable(g.entry.id, skip_edges=self.contra[pol])
                      for pol in (True, False)}
        self.smap = I.stmt_node_map(g)
        self.bind = {}                  # name -> [(cfg node, value | None)]
        for n in g.nodes:
            if n.ast is None:
                continue
            if n.kind == 'stmt' and isinstance(n.ast, (
                    ast.Assign, ast.AnnAssign, ast.AugAssign)):
                tg = n.ast.targets if isinstance(n.ast, ast.Assign) \
                    else [n.ast.target]
                for t in tg:
                    if isinstance(t, ast.Name):
                        self.bind.setdefault(t.id, []).append(
                            (n, n.ast.value if not isinstance(
                                n.ast, ast.AugAssign) else None))
                    else:
                        for nm in stores_in_target(t):
                            self.bind.setdefault(nm, []).append((n, None))
            elif n.kind == 'for':
                for nm in stores_in_target(n.ast.target):
                    self.bind.setdefault(nm, []).append((n, None))
            elif n.kind == 'with':
                for i in n.ast.items:
                    if i.optional_vars is not None:
                        for nm in stores_in_target(i.optional_vars):
                            self.bind.setdefault(nm, []).append((n, None))

    def reaching(self, name, nid, pol):
        """bindings of `name` that reach node nid in direction pol"""
        g = self.g
        defs = self.bind.get(name, [])
        ids = {n.id for n, v in defs}
        out = []
        for n, v in defs:
            if n.id not in self.reach[pol]:
                continue
            contra = set(self.contra[pol])
            starts = [e.dst for e in g.succ[n.id] if e.label != 'exc' and
                      (e.src, e.label) not in contra]
            r = g.reachable(starts, skip_nodes=ids - {nid},
                            skip_edges=self.contra[pol])
            if nid in r:
                out.append((n, v))
        return out

    def _depends_on_state(self, e):
        for x in walk(e):
            if isinstance(x, ast.Name):
                if x.id == self.state:
                    return True
                for n, v in self.bind.get(x.id, []):
                    if any(k in self.edges for k in guards(self.g, n.id)):
                        return True
        return False

    def _opaque(self, e):
        if self._depends_on_state(e):
            return None
        return (1, unparse(e))

    def _pick(self, e, pol):
        """branch of a conditional expression / literal table selected by the
        direction, or None"""
        if isinstance(e, ast.IfExp):
            d = _cmp_direction(self.prog, self.f, e.test, self.state,
                               self.free, self.busy,
                               _once_bound_values(self.f.node, self.f.params))
            if d is None:
                return None
            return e.body if d == pol else e.orelse
        if isinstance(e, ast.Subscript) and isinstance(e.value, ast.Dict) \
                and isinstance(e.slice, ast.Name) and e.slice.id == self.state:
            want = self.busy if pol else self.free
            for k, v in zip(e.value.keys, e.value.values):
                if k is not None and \
                        self.prog.fold(self.f.module, k) == want:
                    return v
        return None

    def value(self, e, nid, pol, depth=0):
        """(sign, magnitude text) of expression e evaluated at node nid in
        direction pol; None if it depends on the direction in a way that is
        not understood"""
        if depth > 8:
            return None
        if isinstance(e, ast.Constant) and isinstance(e.value, (int, float)) \
                and not isinstance(e.value, bool):
            return (-1 if e.value < 0 else 1, repr(abs(e.value)))
        if isinstance(e, ast.UnaryOp) and isinstance(e.op, (ast.USub,
                                                           ast.UAdd)):
            r = self.value(e.operand, nid, pol, depth + 1)
            if r is None:
                return None
            return (-r[0], r[1]) if isinstance(e.op, ast.USub) else r
        if isinstance(e, ast.BinOp) and isinstance(e.op, ast.Mult):
            a = self.value(e.left, nid, pol, depth + 1)
            b = self.value(e.right, nid, pol, depth + 1)
            if a is None or b is None:
                return None
            if a[1] in ('1', '1.0'):
                mag = b[1]
            elif b[1] in ('1', '1.0'):
                mag = a[1]
            else:
                mag = '%s * %s' % (a[1], b[1])
            return (a[0] * b[0], mag)
        br = self._pick(e, pol)
        if br is not None:
            return self.value(br, nid, pol, depth + 1)
        if isinstance(e, ast.Name) and e.id != self.state:
            rd = self.reaching(e.id, nid, pol)
            vals = set()
            for n, v in rd:
                if v is None:
                    return self._opaque(e)      # loop variable, tuple, +=
                r = self.value(v, n.id, pol, depth + 1)
                if r is None:
                    return None
                vals.add(r)
            if len(vals) == 1:
                return vals.pop()
            if vals:
                return None
            return (1, e.id) if e.id not in self.bind else None
        return self._opaque(e)

    def _callable(self, e, nid, pol, depth=0):
        """'Add' / 'Sub' for a callee expression in direction pol"""
        if depth > 4:
            return None
        br = self._pick(e, pol)
        if br is not None:
            return self._callable(br, nid, pol, depth + 1)
        if isinstance(e, ast.Name) and e.id in self.bind:
            ops = set()
            for n, v in self.reaching(e.id, nid, pol):
                ops.add(self._callable(v, n.id, pol, depth + 1)
                        if v is not None else None)
            return ops.pop() if len(ops) == 1 else None
        return _operator_fn(self.f, e)

    def is_functional_update(self, n):
        """`T = op(T, x)` where op is (in some direction) operator.add/sub"""
        c = n.value
        if not (isinstance(c, ast.Call) and len(c.args) == 2 and
                not c.keywords and
                unparse(c.args[0]) == unparse(n.targets[0])):
            return False
        nid = self.smap[id(n)].id
        return any(self._callable(c.func, nid, pol) for pol in (True, False))

    def update(self, n, pol):
        """('Add' | 'Sub', magnitude) of update statement n in direction pol"""
        nid = self.smap[id(n)].id
        # a guard that mentions the state but is not understood
        for k in guards(self.g, nid):
            a = self.g.nodes[k[0]].ast
            if k not in self.edges and any(
                    isinstance(x, ast.Name) and x.id == self.state
                    for x in walk(a)):
                return None
        if isinstance(n, ast.AugAssign):
            op = type(n.op).__name__
            amount = n.value
        else:
            op = self._callable(n.value.func, nid, pol)
            amount = n.value.args[1]
            if op is None:
                return None
        r = self.value(amount, nid, pol)
        if r is None:
            return None
        if r[0] < 0:
            op = 'Sub' if op == 'Add' else 'Add'
        return (op, r[1])


# ------------------------------------------------------------------------------
# R03.1  symmetric update
#
def r03_1(prog, rep, rid='R03.1'):
    rep.rule(rid, 'every debit has a mirror credit: opposite operator, same '
             'target, same operand, mirrored condition; cores/gpus are written '
             'with the new state itself', minimum=12)
    free, busy, down = consts(prog)
    base, classes = sched_classes(prog)
    seen = set()
    for K in classes:
        f = prog.find_method(K, '_change_slot_states')
        if id(f) in seen:
            continue
        seen.add(id(f))
        rep.saw(f)
        g = cfg_of(f)
        smap = I.stmt_node_map(g)
        params = [p for p in f.params if p != 'self']
        if len(params) < 2:
            raise AnalysisError('UNRECOGNISED-IDIOM %s: parameters' % f.where)
        state = params[1]
        # writes in an `except` body undo a failed application (R03.7): they
        # are not one of the two directions
        inh = _in_handlers(f.node)[0]
        sg = _Signed(prog, f, g, state, free, busy)
        augs = {}
        for n in walk(f.node):
            if id(n) in inh or id(n) not in smap:
                continue
            if isinstance(n, ast.AugAssign) and \
                    isinstance(n.op, (ast.Add, ast.Sub)):
                augs.setdefault(_norm_target(n.target), []).append(n)
            elif isinstance(n, ast.Assign) and len(n.targets) == 1 and \
                    isinstance(n.targets[0], (ast.Subscript, ast.Attribute)) \
                    and sg.is_functional_update(n):
                augs.setdefault(_norm_target(n.targets[0]), []).append(n)
        if len(augs) < 2:
            raise AnalysisError('R03.1: %s has fewer than two debited '
                                'quantities' % f.where)
        for tgt, lst in sorted(augs.items()):
            # what happens to the target in each direction: the updates that
            # can run when new_state is BUSY (resp. FREE), each reduced to
            # (effective operator, magnitude) - `+= sign * x` with sign -1
            # under BUSY is a debit by x
            deb, cre = [], []
            for n in lst:
                for pol, out in ((True, deb), (False, cre)):
                    if smap[id(n)].id not in sg.reach[pol]:
                        continue
                    r = sg.update(n, pol)
                    if r is None:
                        raise AnalysisError(
                            'UNRECOGNISED-IDIOM %s: the amount of `%s` depends '
                            'on %s in a way that is not understood'
                            % (f.where, short(n, 60), state))
                    out.append(r)
            both = [x for x in deb if x in cre]
            okay = len(deb) == 1 and len(cre) == 1 and \
                deb[0][0] == 'Sub' and cre[0][0] == 'Add' and \
                deb[0][1] == cre[0][1]
            rep.check(okay, rid, f,
                      '%s: %s is debited (-=) under BUSY and credited (+=) '
                      'under FREE by the same operand' % (f.qual, tgt),
                      construct='%s:%s' % (f.qual, tgt),
                      message='%s: the updates of %s are not symmetric '
                      '(BUSY: %s, FREE: %s, unconditional: %s): a release '
                      'does not restore what the grant took'
                      % (f.qual, tgt, [x for x in deb if x not in both],
                         [x for x in cre if x not in both], both),
                      loc=f.loc(lst[0]),
                      history='grant and release of one task with lfs/mem: '
                      'the node ends with a different amount than it started '
                      'with')
        # cores / gpus: value written is the state parameter, unconditionally
        n_cg = 0
        for kind, target, stmt in I.stores(f.node):
            if kind != 'assign' or not isinstance(target, ast.Subscript) \
                    or id(stmt) in inh:
                continue
            t = _norm_target(target)
            if not (t.endswith('[*]') and ('cores' in t or 'gpus' in t or
                    'cores' in unparse(stmt) or 'gpus' in unparse(stmt))):
                continue
            n_cg += 1
            cn = smap[id(stmt)]
            cond = [g.nodes[tid].ast for tid, lab in guards(g, cn.id)
                    if state in {x.id for x in walk(g.nodes[tid].ast)
                                 if isinstance(x, ast.Name)}]
            okay = isinstance(stmt.value, ast.Name) and \
                stmt.value.id == state and not cond
            rep.check(okay, rid, f, '%s: %s = %s (the new state itself, in '
                      'both directions)' % (f.qual, t, state), construct=stmt,
                      message='%s: %s is not set to the requested state in '
                      'both directions (value `%s`%s): BUSY and FREE do not '
                      'undo each other' % (f.qual, t, short(stmt.value, 30),
                                           ', conditional on the state'
                                           if cond else ''),
                      loc=f.loc(stmt),
                      history='a released core stays BUSY (or a granted core '
                      'stays FREE)')
        if n_cg < 2:
            raise AnalysisError('R03.1: %s: core/gpu state stores not found'
                                % f.where)

    # application-level pair Node.allocate_slot <-> deallocate_slot
    node = prog.cls(*NODE)
    fa = prog.find_method(node, 'allocate_slot')
    fd = prog.find_method(node, 'deallocate_slot')
    if fa is None or fd is None:
        raise AnalysisError('Node.allocate_slot / deallocate_slot missing')
    rep.saw(fa)
    rep.saw(fd)

    def collect(f):
        g = cfg_of(f)
        smap = I.stmt_node_map(g)
        out = {}
        for n in walk(f.node):
            if isinstance(n, ast.AugAssign) and \
                    isinstance(n.op, (ast.Add, ast.Sub)):
                cn = smap[id(n)]
                # conditions on the node's own state (self.*) that guard it
                cond = sorted('%s%s' % ('' if lab == 'T' else 'not ',
                                        unparse(g.nodes[tid].ast))
                              for tid, lab in guards(g, cn.id)
                              if 'self.' in unparse(g.nodes[tid].ast))
                operand = _resolve_alias(f, n.value)
                # normalise the parameter naming: `slot.` prefix
                out.setdefault(_norm_target(n.target), []).append(
                    (n, type(n.op), operand.split('.')[-1], cond))
        return out
    A, D = collect(fa), collect(fd)
    if len(A) < 4:
        raise AnalysisError('R03.1: Node.allocate_slot debits only %s'
                            % sorted(A))
    for tgt in sorted(set(A) | set(D)):
        a, dd = A.get(tgt, []), D.get(tgt, [])
        okay = len(a) == 1 and len(dd) == 1 and a[0][1] is not dd[0][1] and \
            a[0][2] == dd[0][2] and a[0][3] == dd[0][3]
        why = ''
        if len(a) == 1 and len(dd) == 1:
            if a[0][1] is dd[0][1]:
                why = 'same operator in both directions'
            elif a[0][2] != dd[0][2]:
                why = 'different operands (%s vs %s)' % (a[0][2], dd[0][2])
            elif a[0][3] != dd[0][3]:
                why = ('allocate is conditional on %s, deallocate on %s'
                       % (a[0][3] or 'nothing', dd[0][3] or 'nothing'))
        else:
            why = '%d update(s) in allocate_slot, %d in deallocate_slot' % (
                len(a), len(dd))
        rep.check(okay, rid, fd, 'Node: %s is updated symmetrically by '
                  'allocate_slot / deallocate_slot' % tgt,
                  construct='Node:%s' % tgt,
                  message='Node: allocate_slot and deallocate_slot do not '
                  'mirror each other on %s: %s' % (tgt, why),
                  loc=fd.loc((dd or a)[0][0]),
                  history='Node built without lfs/mem (the default None): '
                  'find_slot succeeds (debit skipped), release raises '
                  "TypeError on `None += 0` and the remaining slots of the "
                  'list are never released' if 'conditional' in why else
                  'allocate then deallocate one slot: the node does not '
                  'return to its initial state')


# ------------------------------------------------------------------------------
# R03.12  the credit is reached whenever the debit was
#
def _guard_reads(e, once, depth=3):
    """what a test / an amount looks at: access paths, names (once-bound
    locals expanded to what they were bound to) and string keys"""
    out = set()
    for x in walk(e):
        if isinstance(x, (ast.Subscript, ast.Attribute)):
            out.add(unparse(x))
        elif isinstance(x, ast.Name):
            if x.id in once and depth:
                out |= _guard_reads(once[x.id], once, depth - 1)
            else:
                out.add(x.id)
        elif isinstance(x, ast.Constant) and isinstance(x.value, str):
            out.add(repr(x.value))
    return out


def r03_12(prog, rep, rid='R03.12'):
    rep.rule(rid, '_change_slot_states: the FREE-direction credit of a '
             'quantity runs under no condition the BUSY-direction debit of '
             'the same quantity does not also run under (other than the '
             'direction itself and tests of the very amount)', minimum=2)
    free, busy, down = consts(prog)
    base, classes = sched_classes(prog)
    seen = set()
    for K in classes:
        f = prog.find_method(K, '_change_slot_states')
        if f is None or id(f) in seen:
            continue
        seen.add(id(f))
        rep.saw(f)
        g = cfg_of(f)
        smap = I.stmt_node_map(g)
        params = [p for p in f.params if p != 'self']
        if len(params) < 2:
            raise AnalysisError('UNRECOGNISED-IDIOM %s: parameters' % f.where)
        state = params[1]
        inh = _in_handlers(f.node)[0]
        sg = _Signed(prog, f, g, state, free, busy)
        once = _once_bound_values(f.node, f.params)
        augs = {}
        for n in walk(f.node):
            if id(n) in inh or id(n) not in smap:
                continue
            if isinstance(n, ast.AugAssign) and \
                    isinstance(n.op, (ast.Add, ast.Sub)):
                augs.setdefault(_norm_target(n.target), []).append(n)
            elif isinstance(n, ast.Assign) and len(n.targets) == 1 and \
                    isinstance(n.targets[0], (ast.Subscript, ast.Attribute)) \
                    and sg.is_functional_update(n):
                augs.setdefault(_norm_target(n.targets[0]), []).append(n)

        def other_guards(n):
            """guards of update n that are not the direction: {(text,
            label): test ast}"""
            out = {}
            for k in guards(g, smap[id(n)].id):
                a = g.nodes[k[0]].ast
                if k in sg.edges or state in _guard_reads(a, once):
                    continue
                out[(unparse(a), k[1])] = a
            return out

        for tgt, lst in sorted(augs.items()):
            deb, cre = [], []
            for n in lst:
                for pol, want, out in ((True, 'Sub', deb), (False, 'Add', cre)):
                    if smap[id(n)].id not in sg.reach[pol]:
                        continue
                    r = sg.update(n, pol)
                    if r is not None and r[0] == want:
                        out.append((n, r[1]))
            if not deb or not cre:
                continue            # R03.1 reports the missing direction
            for d, dmag in deb:
                dg = other_guards(d)
                known = set()
                for a in dg.values():
                    known |= _guard_reads(a, once)
                amount = d.value if isinstance(d, ast.AugAssign) \
                    else d.value.args[1]
                known |= _guard_reads(amount, once)
                best = None
                for c, cmag in cre:
                    if cmag != dmag:
                        continue    # R03.1 reports the operand
                    camount = c.value if isinstance(c, ast.AugAssign) \
                        else c.value.args[1]
                    ok_reads = known | _guard_reads(camount, once)
                    extra = [(k, a) for k, a in sorted(other_guards(c).items())
                             if k not in dg and
                             not _guard_reads(a, once) <= ok_reads]
                    if best is None or len(extra) < len(best[1]):
                        best = (c, extra)
                if best is None:
                    continue
                c, extra = best
                rep.check(not extra, rid, f,
                          '%s: the credit of %s is reached under the '
                          'conditions of its debit' % (f.qual, tgt),
                          construct='%s:%s:release-guard' % (f.qual, tgt),
                          message='%s: `%s` (FREE) additionally depends on %s '
                          'which `%s` (BUSY) does not depend on: a slot for '
                          'which that test fails is debited on the grant and '
                          'not credited on the release, so the release does '
                          'not restore what was taken'
                          % (f.qual, short(c, 50),
                             ', '.join('`%s` being %s' % (
                                 short(a, 30), 'true' if k[1] == 'T' else
                                 'false') for k, a in extra), short(d, 50)),
                          loc=f.loc(c),
                          history='a task whose slot holds %s but fails the '
                          'extra test (e.g. mem > 0 and lfs == 0) is granted '
                          'and released: the node keeps the debit; after '
                          'enough such tasks nothing asking for that quantity '
                          'fits the idle pilot' % tgt)


# ------------------------------------------------------------------------------
# R03.2  grant key = release key
#
def r03_2(prog, rep, rid='R03.2'):
    rep.rule(rid, "unschedule_task frees exactly task['slots'] (the key the "
             'grant attached), for every task it is given, unconditionally',
             minimum=2)
    free, busy, down = consts(prog)
    base, classes = sched_classes(prog)
    for K in classes:
        f = prog.find_method(K, 'unschedule_task')
        if f is None or f.cls is base:
            raise AnalysisError('%s.unschedule_task missing' % K.name)
        rep.saw(f)
        g = cfg_of(f)
        smap = I.stmt_node_map(g)
        hits = []
        for c in calls_in(f.node):
            if call_name(c) == 'self._change_slot_states':
                hits.append(c)
        if not hits:
            rep.bad(rid, f, 'no-release', '%s.unschedule_task does not call '
                    '_change_slot_states' % K.name, f.loc())
            continue
        param = [p for p in f.params if p != 'self'][0]
        for c in hits:
            a0, a1 = kwarg(c, 'slots', 0), kwarg(c, 'new_state', 1)
            n = smap[id(c)]
            d = Deps(f.node)
            okay = isinstance(a0, ast.Subscript) and \
                isinstance(a0.slice, ast.Constant) and \
                a0.slice.value == 'slots' and \
                param in d.expr_depends(a0) and a1 is not None and \
                prog.fold(f.module, a1) == free and \
                not guards(g, n.id)
            rep.check(okay, rid, f, "%s.unschedule_task: "
                      "_change_slot_states(task['slots'], rpc.FREE) for every "
                      'task' % K.name, construct=c,
                      message="%s.unschedule_task does not free task['slots'] "
                      'of every given task with rpc.FREE (call: %s%s)'
                      % (K.name, short(c, 70),
                         '; conditional' if guards(g, n.id) else ''),
                      loc=f.loc(c),
                      history='a finished task keeps its cores BUSY for the '
                      'rest of the pilot life time')


# ------------------------------------------------------------------------------
def _iter_scope(g, node):
    """(loop head or None, set of body node ids or None, id of the first node
    of one iteration / of the function)"""
    if node.loops:
        head = node.loops[-1]
        return head, g.loop_body[head], loop_slice(g, head)[0]
    return None, None, g.entry.id


def _iteration_path_avoiding(g, node, via):
    """is there a path of ONE iteration of the innermost loop around `node`
    (of one call, outside loops) which goes through `node` and passes none of
    the nodes `via` - neither before nor after it?  Exception edges leaving
    `node` itself are not followed (the statement did not happen then)."""
    via = set(via)
    if node.id in via:
        return False
    head, body, begin = _iter_scope(g, node)
    # reach `node` from the beginning of the iteration without `via`
    seen, todo, reached = set(), [begin], False
    while todo:
        x = todo.pop()
        if x in seen or x in via or (body is not None and x not in body):
            continue
        seen.add(x)
        if x == node.id:
            reached = True
            continue
        todo += [e.dst for e in g.succ[x] if not (e.back and e.dst == head)]
    if not reached:
        return False
    # leave the iteration after `node` without `via`
    seen = set()
    todo = [(e.dst, e) for e in g.succ[node.id] if e.label != 'exc']
    while todo:
        x, e = todo.pop()
        if (e.back and e.dst == head) or \
                (body is not None and x not in body) or \
                x in (g.exit.id, g.raise_.id):
            return True
        if x in seen or x in via:
            continue
        seen.add(x)
        todo += [(e2.dst, e2) for e2 in g.succ[x]]
    return False


def _takes_back_own_increment(f, n):
    """`self._active_cnt -= 1` which every path of its iteration reaches only
    after an increment of the same iteration (a compensation)"""
    g = cfg_of(f)
    smap = I.stmt_node_map(g)
    if id(n) not in smap:
        return False
    node = smap[id(n)]
    incs = [x.id for x in g.nodes
            if x.kind == 'stmt' and isinstance(x.ast, ast.AugAssign) and
            isinstance(x.ast.op, ast.Add) and
            unparse(x.ast.target) == 'self._active_cnt']
    if not incs:
        return False
    begin = _iter_scope(g, node)[2]
    return must_pass(g, begin, node.id, incs)


# R03.3  counter discipline (_active_cnt)
#
def r03_3(prog, rep, rid='R03.3'):
    rep.rule(rid, '_active_cnt: reset in initialize, +1 on every granting '
             'path (and only there), -1 once per released task together with '
             'queueing it for unschedule_task; every queued task is released',
             minimum=7)
    free, busy, down = consts(prog)
    base, classes = sched_classes(prog)
    methods = {}
    for K in [base] + classes:
        for name, f in K.methods.items():
            methods[(K.name, name)] = f
    writers = []
    for (kn, name), f in sorted(methods.items()):
        for n in walk(f.node, nested=True):
            tg = []
            if isinstance(n, ast.Assign):
                tg = n.targets
            elif isinstance(n, (ast.AugAssign, ast.AnnAssign)):
                tg = [n.target]
            for t in tg:
                for e in I._flat(t):
                    if unparse(e) == 'self._active_cnt':
                        writers.append((f, n))
    if len(writers) < 3:
        raise AnalysisError('R03.3: only %d writers of self._active_cnt found'
                            % len(writers))
    incs_try, incs_inc = [], []
    for f, n in writers:
        rep.saw(f)
        if isinstance(n, ast.Assign):
            okay = f.name in ('initialize', '__init__') and \
                isinstance(n.value, ast.Constant) and n.value.value == 0
            rep.check(okay, rid, f, '_active_cnt = 0 in %s' % f.qual,
                      construct=n, message='_active_cnt is overwritten in %s '
                      '(`%s`): the count of placed tasks is lost and the '
                      '"can never be scheduled" rule misfires'
                      % (f.qual, short(n, 50)), loc=f.loc(n))
            continue
        one = isinstance(n.value, ast.Constant) and n.value.value == 1
        if isinstance(n.op, ast.Add) and one and f.name == '_try_allocation':
            incs_try.append((f, n))
        elif isinstance(n.op, ast.Add) and one and \
                f.name == '_schedule_incoming':
            incs_inc.append((f, n))
        elif isinstance(n.op, ast.Sub) and f.name == '_unschedule_completed' \
                and (one or (isinstance(n.value, ast.Call) and
                             dotted(n.value.func) == 'len')):
            pass    # checked below
        elif isinstance(n.op, ast.Sub) and one and \
                _takes_back_own_increment(f, n):
            rep.info(rid, f, '`%s` in %s takes back the increment made earlier '
                     'in the same iteration (compensation on a failure path)'
                     % (short(n, 40), f.qual), f.loc(n))
        else:
            rep.bad(rid, f, n, '_active_cnt is changed in %s by `%s`: not a '
                    'grant (+1 in _try_allocation / pre-placed branch) and not '
                    'a release (-1 in _unschedule_completed)'
                    % (f.qual, short(n, 50)), f.loc(n),
                    history='the count drifts; with a positive drift a task '
                    'that cannot fit the idle pilot waits forever, with a '
                    'negative one a task that fits is failed')
    # +1 on every granting path of _try_allocation
    for K in classes:
        f, g, var, starts = grant_paths(prog, rep, K, rid)
        smap = I.stmt_node_map(g)
        ids = [smap[id(n)].id for ff, n in incs_try if ff is f]
        okay = bool(ids) and starts.must_pass(ids)
        # and only on granting paths
        only = starts.only_granted(ids)
        rep.check(okay and only, rid, f, '%s: _active_cnt += 1 on every '
                  'granting path of _try_allocation and on no other'
                  % K.name, construct='%s:inc' % K.name,
                  message='%s._try_allocation: %s' % (K.name,
                      'a granting path does not count the task' if not okay
                      else 'the task is counted on a path that does not '
                      'grant'), loc=f.loc(),
                  history='after the first task finished the count is -1; the '
                  'next task that does not fit is kept waiting although the '
                  'pilot is idle (or failed although it would fit later)')
    # pre-placed branch: +1 must come with the BUSY marking, before the
    # hand-on (R01.3c decides the marking itself)
    fi = prog.method(BASE[0], BASE[1], '_schedule_incoming')
    g = cfg_of(fi)
    smap = I.stmt_node_map(g)
    target = prog.const('states.py', 'AGENT_EXECUTING_PENDING')
    for c in calls_in(fi.node):
        if not I.is_handon(c) or I.handon_state(prog, fi, c) != target:
            continue
        node = smap[id(c)]
        from .c01 import granted_by_try
        if granted_by_try(fi, g, node):
            continue
        ids = {smap[id(n)].id for ff, n in incs_inc}
        # counted before OR after the hand-on, within the same iteration (the
        # order of the two statements does not matter: one thread)
        okay = bool(ids) and not _iteration_path_avoiding(g, node, ids)
        rep.check(okay, rid, fi, 'tasks started with application-supplied '
                  'slots are counted active', construct=c,
                  message='a task with application-supplied slots is started '
                  'without `_active_cnt += 1` although its release decrements '
                  'the count', loc=fi.loc(c),
                  history='one pre-placed task runs and finishes: the count is '
                  '-1; a task that fits only the idle pilot is then failed as '
                  '"can never be scheduled" while another task is running')
    starts = {smap[id(c)].id for c in calls_in(fi.node)
              if I.is_handon(c) and I.handon_state(prog, fi, c) == target
              and id(c) in smap}
    backs = {smap[id(n)].id for ff, n in writers if ff is fi and
             isinstance(n, ast.AugAssign) and isinstance(n.op, ast.Sub)
             and id(n) in smap}
    for ff, n in incs_inc:
        nn = smap[id(n)]
        feeds = not _iteration_path_avoiding(g, nn, starts | backs)
        rep.check(feeds, rid, fi, '_active_cnt += 1 in _schedule_incoming '
                  'leads to a start', construct=n, message='_active_cnt is '
                  'incremented in _schedule_incoming on a path that does not '
                  'start a task', loc=fi.loc(n))
    # -1 together with queueing for release; every queued task released
    fu = prog.method(BASE[0], BASE[1], '_unschedule_completed')
    rep.saw(fu)
    g = cfg_of(fu)
    smap = I.stmt_node_map(g)
    decs = [n for ff, n in writers if ff is fu and isinstance(n, ast.AugAssign)
            and isinstance(n.op, ast.Sub)]
    rel_calls = [c for c in calls_in(fu.node)
                 if call_name(c) == 'self.unschedule_task']
    if not rel_calls:
        raise AnalysisError('R03.3: _unschedule_completed does not call '
                            'self.unschedule_task')
    relc = rel_calls[0]
    reln = smap[id(relc)]
    heads = [g.nodes[h] for h in reln.loops if g.nodes[h].kind == 'for']
    if not heads or not root_name(heads[-1].ast.iter):
        raise AnalysisError('UNRECOGNISED-IDIOM %s: unschedule_task is not '
                            'called in a loop over a list' % fu.where)
    H = heads[-1]
    qname = root_name(H.ast.iter)
    rep.check(isinstance(H.ast.iter, ast.Name), rid, fu, 'the release loop '
              'iterates the whole list %s' % qname, construct='release-loop',
              message='the release loop iterates `%s`, not the whole list of '
              'queued tasks' % short(H.ast.iter, 40), loc=fu.loc(H.ast),
              history='two tasks finish in one bulk: only one is released')
    okarg = relc.args and isinstance(relc.args[0], ast.Name) and \
        relc.args[0].id in stores_in_target(H.ast.target) and \
        not [x for x in guards(g, reln.id)
             if g.nodes[x[0]].loops == reln.loops]
    rep.check(okarg, rid, fu, 'every task of %s is passed to unschedule_task'
              % qname, construct=relc, message='not every task queued in %s '
              'is passed to unschedule_task (conditional call or wrong '
              'argument)' % qname, loc=fu.loc(relc),
              history='a finished task is counted out but its cores stay BUSY')
    queues = [c for c in calls_in(fu.node)
              if isinstance(c.func, ast.Attribute) and c.func.attr in
              ('append', 'extend') and unparse(c.func.value) == qname]
    if not queues:
        raise AnalysisError('UNRECOGNISED-IDIOM %s: nothing is appended to %s'
                            % (fu.where, qname))
    # alternative form: one `-= len(<queue>)` for the whole bulk, executed on
    # every path from the fill loop to the exit on which the queue is not empty
    bulk = [d for d in decs if isinstance(d.value, ast.Call) and
            dotted(d.value.func) == 'len' and d.value.args and
            unparse(d.value.args[0]) == qname]
    fill_iter = set()
    for q in queues:
        for h in smap[id(q)].loops:
            if g.nodes[h].kind == 'for' and isinstance(g.nodes[h].ast.iter,
                                                       ast.Name):
                fill_iter.add(g.nodes[h].ast.iter.id)
    empties = [(n.id, 'F') for n in g.nodes if n.kind == 'test' and
               isinstance(n.ast, ast.Name) and n.ast.id in ({qname} |
                                                            fill_iter)]
    if bulk and len(bulk) == len(decs):
        bn = smap[id(bulk[0])]
        fill_heads = {h for q in queues for h in smap[id(q)].loops}
        after_fill = [e.dst for h in fill_heads for e in g.succ[h]
                      if e.label == 'done']
        okb = len(bulk) == 1 and not (set(bn.loops) & fill_heads) and all(
            g.exit.id not in g.reachable(s0, skip_nodes={bn.id},
                                         skip_edges=empties)
            for s0 in after_fill)
        rep.check(okb, rid, fu, '_active_cnt -= len(%s) once for the whole '
                  'bulk, on every path with a non-empty queue' % qname,
                  construct='bulk-decrement', message='the bulk decrement '
                  '`%s` is not executed exactly once on every path on which '
                  '%s holds tasks' % (short(bulk[0], 40), qname),
                  loc=fu.loc(bulk[0]), history='N tasks finish: the count '
                  'drops by != N')
        queues_to_pair, decs_to_pair = [], []
    else:
        queues_to_pair, decs_to_pair = queues, decs
    for q in queues_to_pair:
        qn = smap[id(q)]
        paired = [d for d in decs
                  if set(guards(g, smap[id(d)].id)) == set(guards(g, qn.id))
                  and smap[id(d)].loops == qn.loops]
        rep.check(len(paired) == 1, rid, fu, '_active_cnt -= 1 exactly once '
                  'with %s' % short(q, 40), construct=q,
                  message='queueing a task for release (%s) is paired with %d '
                  'decrement(s) of _active_cnt under the same conditions'
                  % (short(q, 40), len(paired)), loc=fu.loc(q),
                  history='N tasks finish: the count drops by != N')
    for dn in decs_to_pair:
        d = smap[id(dn)]
        paired = [q for q in queues
                  if set(guards(g, smap[id(q)].id)) == set(guards(g, d.id))
                  and smap[id(q)].loops == d.loops]
        rep.check(len(paired) == 1, rid, fu, 'each _active_cnt -= 1 belongs '
                  'to one queued task', construct=dn,
                  message='_active_cnt is decremented without queueing a '
                  'task for release under the same conditions', loc=fu.loc(dn))
    # returns before the release loop only when nothing was queued
    for n in g.stmt_nodes():
        if n.kind == 'stmt' and isinstance(n.ast, ast.Return) and \
                n.id in g.reachable(g.entry.id, skip_nodes={H.id}):
            gs = guards(g, n.id)
            empty = any(isinstance(g.nodes[t].ast, ast.Name) and
                        g.nodes[t].ast.id in ({qname} | fill_iter) and
                        lab == 'F' for t, lab in gs)
            rep.check(empty, rid, fu, 'return before the release loop only '
                      'when %s is empty' % qname, construct=n.ast,
                      message='_unschedule_completed can return before the '
                      'release loop although %s holds tasks' % qname,
                      loc=fu.loc(n.ast),
                      history='finished tasks are counted out but never '
                      'released')
    # first element of the return value is true on every path that released
    for n in g.stmt_nodes():
        if n.kind == 'stmt' and isinstance(n.ast, ast.Return) and \
                n.id in g.reachable(H.id) and n.id not in \
                g.reachable(g.entry.id, skip_nodes={H.id}):
            v = n.ast.value
            first = v.elts[0] if isinstance(v, ast.Tuple) and v.elts else v
            okay = isinstance(first, ast.Constant) and first.value is True
            rep.check(okay, 'R04.4', fu, 'after a release the first result of '
                      '_unschedule_completed is True', construct=n.ast,
                      message='_unschedule_completed released resources but '
                      'does not report it (first result `%s`): the wait pool '
                      'is not re-examined' % short(first, 20),
                      loc=fu.loc(n.ast),
                      history='a task waits alone; the running task '
                      'finishes; the waiting task is never started')


# ------------------------------------------------------------------------------
# R03.5  the unschedule message reaches the scheduler loop
#
def r03_5(prog, rep, rid='R03.5'):
    rep.rule(rid, 'unschedule_cb forwards every message to the queue whose '
             'only consumer is _unschedule_completed, which keeps everything '
             'it receives', minimum=3)
    f = prog.method(BASE[0], BASE[1], 'unschedule_cb')
    rep.saw(f)
    g = cfg_of(f)
    smap = I.stmt_node_map(g)
    msg = [p for p in f.params if p != 'self'][-1]
    puts = [c for c in calls_in(f.node) if isinstance(c.func, ast.Attribute)
            and c.func.attr == 'put' and dotted(c.func.value).startswith(
                'self.')]
    okay = False
    qattr = None
    for c in puts:
        if c.args and isinstance(c.args[0], ast.Name) and c.args[0].id == msg:
            qattr = dotted(c.func.value)
            if not guards(g, smap[id(c)].id):
                okay = True
    rep.check(okay, rid, f, 'unschedule_cb puts every message on %s '
              'unconditionally' % qattr, construct='unschedule_cb:put',
              message='unschedule_cb does not forward every unschedule '
              'message unconditionally to the scheduler queue', loc=f.loc(),
              history='a task finishes, its unschedule message is dropped: '
              'its cores stay BUSY')
    if not qattr:
        return
    base = prog.cls(*BASE)
    consumers = []
    for name, m in base.methods.items():
        for c in calls_in(m.node):
            if isinstance(c.func, ast.Attribute) and c.func.attr in \
                    ('get', 'get_nowait') and dotted(c.func.value) == qattr:
                consumers.append((m, c))
    rep.check(len(consumers) == 1 and
              consumers[0][0].name == '_unschedule_completed', rid, base,
              '%s has the single consumer _unschedule_completed' % qattr,
              construct='consumers:%s' % qattr,
              message='%s is consumed by %s: a release message can be taken '
              'by a consumer that does not release'
              % (qattr, [m.qual for m, c in consumers]))
    if consumers:
        m, c = consumers[0]
        g = cfg_of(m)
        smap = I.stmt_node_map(g)
        gn = smap[id(c)]
        var = None
        if isinstance(gn.ast, ast.Assign) and isinstance(gn.ast.targets[0],
                                                         ast.Name):
            var = gn.ast.targets[0].id
        keep = []
        for n in g.stmt_nodes():
            if n.kind == 'stmt' and var and var in \
                    {x.id for x in walk(n.ast) if isinstance(x, ast.Name)
                     and isinstance(x.ctx, ast.Load)} and (
                    isinstance(n.ast, ast.AugAssign) or any(
                        isinstance(cc.func, ast.Attribute) and cc.func.attr in
                        ('append', 'extend') for cc in calls_in(n.ast))):
                keep.append(n.id)
        start, stop, stop_edge = loop_slice(g, gn.loops[-1]) if gn.loops \
            else (g.entry.id, None, None)
        okk = bool(keep)
        if okk:
            # every way out of the iteration after the get passes a keep
            body = g.loop_body[gn.loops[-1]] if gn.loops else set()
            r = set()
            for e in g.succ[gn.id]:
                if e.label != 'exc':
                    r |= g.reachable(e.dst, skip_nodes=set(keep),
                                     no_back=True)
            leaves = [x for x in r if x not in body] if gn.loops else \
                [x for x in r if x == g.exit.id]
            backs = [e for x in r & body for e in g.succ[x] if e.back]
            okk = not leaves and not backs
        rep.check(okk, rid, m, 'everything taken from %s is kept for release'
                  % qattr, construct='%s:keep' % m.qual,
                  message='%s: a message taken from %s can be dropped before '
                  'it is added to the list of tasks to unschedule'
                  % (m.qual, qattr), loc=m.loc(c))


# ------------------------------------------------------------------------------
# R03.6  rollback of a partial application-level search
#
def _real_guards(g, smap, c, slotvars):
    """guards of the call `<node>.deallocate_slot(<slot>)` inside its own loop
    nest level, without the ones that only *select the receiver*: the node is
    looked up by comparing its index with the slot's node index
    (`if node.index != slot.node_index: continue`) - for a slot that names a
    node of the list that is the same as `self.nodes[slot.node_index]`"""
    at = smap[id(c)]
    recv = c.func.value
    out = []
    for tid, lab in guards(g, at.id):
        t = g.nodes[tid]
        if t.loops != at.loops:
            continue
        a = t.ast
        if isinstance(recv, ast.Name) and isinstance(a, ast.Compare) and \
                len(a.ops) == 1 and isinstance(a.ops[0], (ast.Eq, ast.NotEq)):
            l, r = a.left, a.comparators[0]
            roots = {root_name(l), root_name(r)}
            equal = (lab == 'T') == isinstance(a.ops[0], ast.Eq)
            loops = [g.nodes[h] for h in at.loops if g.nodes[h].kind == 'for']
            inner = loops[-1] if loops else None
            if equal and I.is_path(l) and I.is_path(r) and \
                    recv.id in roots and (roots - {recv.id}) <= set(slotvars) \
                    and len(roots) == 2 and inner is not None and \
                    recv.id in stores_in_target(inner.ast.target) and \
                    unparse(inner.ast.iter) == 'self.nodes':
                continue
        out.append((tid, lab))
    return out


def r03_6(prog, rep, rid='R03.6'):
    rep.rule(rid, 'NodeList.find_slots: a failure return after a successful '
             'find_slot (which allocates) passes the loop that deallocates '
             'the partial result; release_slots deallocates every slot',
             minimum=2)
    nl = prog.cls(*NODELIST)
    f = prog.find_method(nl, 'find_slots')
    rep.saw(f)
    g = cfg_of(f)
    smap = I.stmt_node_map(g)
    finds = [smap[id(c)] for c in calls_in(f.node)
             if isinstance(c.func, ast.Attribute) and
             c.func.attr == 'find_slot']
    if not finds:
        raise AnalysisError('R03.6: NodeList.find_slots does not call '
                            'find_slot')
    res = None
    for c in calls_in(f.node):
        if isinstance(c.func, ast.Attribute) and c.func.attr == 'append' and \
                isinstance(c.func.value, ast.Name):
            res = c.func.value.id
            app = smap[id(c)]
    if res is None:
        raise AnalysisError('UNRECOGNISED-IDIOM %s: no result list' % f.where)
    undo = []
    for n in g.nodes:
        if n.kind == 'for' and isinstance(n.ast.iter, ast.Name) and \
                n.ast.iter.id == res:
            tv = stores_in_target(n.ast.target)
            for c in calls_in(n.ast):
                if isinstance(c.func, ast.Attribute) and \
                        c.func.attr == 'deallocate_slot' and c.args and \
                        isinstance(c.args[0], ast.Name) and \
                        c.args[0].id in tv and \
                        not _real_guards(g, smap, c, tv):
                    undo.append(n.id)
    fails = [n for n in g.stmt_nodes() if n.kind == 'stmt' and
             isinstance(n.ast, ast.Return) and (
                 n.ast.value is None or (isinstance(n.ast.value, ast.Constant)
                                         and n.ast.value.value is None))]
    n_ob = 0
    for r in fails:
        if r.id not in g.reachable(app.id):
            continue
        n_ob += 1
        okay = bool(undo) and must_pass(g, app.id, r.id, undo)
        rep.check(okay, rid, f, 'failure return after an allocation passes '
                  'the roll-back loop', construct=r.ast,
                  message='NodeList.find_slots can return failure after '
                  'find_slot allocated slots without deallocating them',
                  loc=f.loc(r.ast),
                  history='find_slots(rr, 3) on a list with room for 2: the 2 '
                  'slots found stay allocated although the call failed')
    if not n_ob:
        raise AnalysisError('UNRECOGNISED-IDIOM %s: no failure return after '
                            'the search loop' % f.where)
    f2 = prog.find_method(nl, 'release_slots')
    rep.saw(f2)
    g2 = cfg_of(f2)
    smap2 = I.stmt_node_map(g2)
    param = [p for p in f2.params if p != 'self'][0]
    okay = False
    for n in g2.nodes:
        if n.kind == 'for' and unparse(n.ast.iter) == param:
            tv = stores_in_target(n.ast.target)
            for c in calls_in(n.ast):
                if isinstance(c.func, ast.Attribute) and \
                        c.func.attr == 'deallocate_slot' and c.args and \
                        isinstance(c.args[0], ast.Name) and c.args[0].id in tv \
                        and not _real_guards(g2, smap2, c, tv):
                    okay = True
    rep.check(okay, rid, f2, 'release_slots deallocates every slot it is '
              'given', construct='release_slots',
              message='NodeList.release_slots does not deallocate every slot '
              'of its argument unconditionally', loc=f2.loc())


# ------------------------------------------------------------------------------
# R03.7  one slot is applied atomically by the occupancy writer
#
def _node_roots(n):
    """expressions / statements evaluated by one cfg node"""
    if n.ast is None or n.kind in ('while', 'dispatch', 'handler', 'join',
                                   'entry', 'exit', 'raise'):
        return []
    if isinstance(n.ast, (ast.FunctionDef, ast.AsyncFunctionDef,
                          ast.ClassDef)):
        return []
    if n.kind == 'for':
        return [n.ast.iter]
    if n.kind == 'with':
        return [i.context_expr for i in n.ast.items]
    return [n.ast]


def _in_handlers(fnode):
    """(ids of the ast nodes lexically inside an `except` body, the same plus
    those inside a `finally` body).  What is raised in a handler propagates
    (or converts) a failure that started in the try body: it is not the origin
    of one."""
    inh, infin = set(), set()
    for n in walk(fnode):
        if isinstance(n, ast.ExceptHandler):
            for s in n.body:
                for m in walk(s):
                    inh.add(id(m))
        elif isinstance(n, ast.Try):
            for s in n.finalbody:
                for m in walk(s):
                    infin.add(id(m))
    return inh, inh | infin


def _state_polarity(prog, f, g, nid, state, free, busy):
    """True: node runs only for new_state == BUSY, False: only for FREE,
    None: in both directions (or not decidable)"""
    edges = _state_edges(prog, f, g, state, free, busy)
    pol = None
    for k in guards(g, nid):
        if k in edges:
            pol = edges[k]
    return pol


def _feasible_after(f, g, wid, pid_, again, noexc):
    """second opinion on "the failure point pid_ is reached after the write
    wid": the locals of `f` that only ever hold constants (`node_found =
    False` .. `node_found = True`) are evaluated along the paths from the
    entry, so that a write made on the branch that also sets such a flag is
    not followed by a failure the flag rules out.  `again`: edges into the
    next iteration of the loop over the slots (what was written belongs to an
    earlier slot then)"""
    from .c02 import _const_flags, _truth as _truth3
    flags = _const_flags(f)
    if not flags:
        return True
    key = lambda e: (e.src, e.dst, e.label)                     # noqa
    again = {key(e) for e in again}
    noexc = {key(e) for e in noexc}
    todo = [(g.entry.id, (), False)]
    seen = set()
    while todo:
        k = todo.pop()
        if k in seen:
            continue
        seen.add(k)
        nid, st, wrote = k
        if nid == pid_ and wrote:
            return True
        n = g.nodes[nid]
        known = dict(st)
        for e in g.succ[nid]:
            st2, w2 = st, wrote
            if nid == wid and key(e) not in noexc:
                w2 = True
            if key(e) in again:
                w2 = False
            if n.kind == 'test' and e.label in ('T', 'F') and \
                    n.ast is not None:
                v = _truth3(n.ast, known)
                if v is not None and v != (e.label == 'T'):
                    continue
            elif n.kind == 'stmt' and e.label != 'exc' and \
                    isinstance(n.ast, ast.Assign) and \
                    len(n.ast.targets) == 1 and \
                    isinstance(n.ast.targets[0], ast.Name) and \
                    n.ast.targets[0].id in flags:
                k2 = dict(known)
                k2[n.ast.targets[0].id] = n.ast.value.value
                st2 = tuple(sorted(k2.items(), key=lambda kv: kv[0]))
            todo.append((e.dst, st2, w2))
    return False


class _Atomicity:
    """For one concrete scheduler class: which cfg nodes of a method write
    occupancy (a store through a path rooted in self.nodes, or a call of a
    resolved callee that does), which are *explicit* failure points (`raise
    X`, `assert`, a call of a resolved callee from which such a failure
    escapes), and which failure points can leave the method after a write
    without passing another write (a roll-back) on the way out."""

    DEPTH = 4

    def __init__(self, prog, K, base):
        self.prog = prog
        self.K = K
        self.methods = I.class_methods(prog, K, stop_at=base)
        self.al = I.Aliases(prog, K, self.methods, 'self.nodes')
        self.memo = {}

    def _rooted(self, f, target):
        if self.methods.get(f.name) is not f:
            return False        # module level function: no view of self.nodes
        return self.al.is_rooted_expr(f.name, target)

    def escapes(self, g, n, ctx, skip=()):
        """the failure raised at node n can leave the function without passing
        a node of `skip`.  Only the propagation is followed: dispatch nodes,
        `finally` copies and the bodies of the handlers that catch it (they may
        re-raise); the normal flow after a handler that swallowed the failure
        is somebody else's path."""
        if isinstance(n.ast, ast.Raise):
            todo = [e.dst for e in g.succ[n.id]]
        else:
            todo = [e.dst for e in g.succ[n.id] if e.label == 'exc']
            if not todo:
                return True     # no enclosing try: nothing here catches it
        skip = set(skip) - {n.id}
        seen = set()
        while todo:
            x = todo.pop()
            if x in seen or x in skip:
                continue
            m = g.nodes[x]
            if not (m.kind in ('dispatch', 'handler', 'join', 'raise') or
                    (m.ast is not None and id(m.ast) in ctx)):
                continue
            seen.add(x)
            if x == g.raise_.id:
                return True
            todo += [e.dst for e in g.succ[x]]
        return False

    def summary(self, f, depth=0, in_loop=False):
        """in_loop: the function is called from inside a loop of the occupancy
        writer, i.e. all of it belongs to the handling of one slot"""
        key = (id(f.node), in_loop)
        if key in self.memo:
            return self.memo[key]
        s = {'f': f, 'W': {}, 'P': {}, 'raises': False, 'writes': False,
             'partial': [], 'across': []}
        self.memo[key] = s              # recursion guard: neutral summary
        g = cfg_of(f)
        inh, ctx = _in_handlers(f.node)
        for n in g.nodes:
            for root in _node_roots(n):
                for kind, target, stmt in I.stores(root):
                    if self._rooted(f, target):
                        s['W'].setdefault(n.id, short(stmt, 60))
                if isinstance(root, (ast.Raise, ast.Assert)):
                    if id(root) not in inh and not (
                            isinstance(root, ast.Raise) and root.exc is None):
                        s['P'][n.id] = (root, None)
                for c in calls_in(root):
                    if depth >= self.DEPTH:
                        continue
                    callee = self.prog.resolve_call(f, c, self.K)
                    if callee is None or callee is f:
                        continue
                    cs = self.summary(callee, depth + 1,
                                      in_loop or bool(n.loops))
                    if cs['writes']:
                        s['W'].setdefault(n.id, short(c, 60))
                    if cs['raises'] and id(c) not in inh:
                        s['P'].setdefault(n.id, (c, cs))
                    for w, p, via, _ in cs['partial']:
                        s['partial'].append((w, p, [short(c, 50)] + via,
                                             None))
        s['writes'] = bool(s['W'])
        s['raises'] = any(self.escapes(g, g.nodes[p], ctx) for p in s['P'])
        # a loop around a write is taken as writing (a roll-back loop over
        # what was marked): passing it on the way out counts as restoring
        restore = set(s['W']) | {h for wid in s['W']
                                 for h in g.nodes[wid].loops}
        for pid_, (past, cs) in sorted(s['P'].items()):
            p = g.nodes[pid_]
            if not self.escapes(g, p, ctx, skip=restore):
                continue                # caught here, or rolled back on the way
            hit = across = None
            for wid, wtxt in sorted(s['W'].items()):
                if wid == pid_:
                    continue            # the callee's own summary decides
                w = g.nodes[wid]
                # leaving the write through an 'exc' edge: it did not happen
                noexc = [e for e in g.succ[wid] if e.label == 'exc']
                if pid_ not in g.reachable(wid, skip_edges=noexc):
                    continue
                # the loop over the slots is the outermost loop around the
                # write: a failure that needs another iteration of it belongs
                # to a later slot
                again = []
                if w.loops and not in_loop:
                    head = w.loops[0]
                    again = [e for x in g.loop_body[head] | {head}
                             for e in g.succ[x] if e.enter == head]
                if pid_ in g.reachable(wid, skip_edges=again + noexc) and \
                        _feasible_after(f, g, wid, pid_, again, noexc):
                    hit = wtxt
                    break
                if across is None:
                    across = wtxt
            if hit is not None:
                s['partial'].append((hit, past, [], pid_))
            elif across is not None:
                s['across'].append((across, past))
        return s


def r03_7(prog, rep, rid='R03.7'):
    rep.rule(rid, '_change_slot_states applies one slot all-or-nothing: no '
             'explicit failure (raise X / assert / call of a method that '
             'raises) can leave it after an occupancy write of the same slot '
             'unless occupancy is written back on the way out: all validation '
             'of a slot dominates its writes (a caller cannot undo a partial '
             'application, it does not know how far it got)', minimum=2)
    free, busy, down = consts(prog)
    base, classes = sched_classes(prog)
    seen = set()
    for K in classes:
        f = prog.find_method(K, '_change_slot_states')
        if f is None:
            raise AnalysisError('%s._change_slot_states missing' % K.name)
        if id(f) in seen:
            continue
        seen.add(id(f))
        rep.saw(f)
        an = _Atomicity(prog, K, base)
        s = an.summary(f)
        if not s['writes']:
            raise AnalysisError('R03.7: %s: no write through self.nodes found'
                                % f.where)
        g = cfg_of(f)
        params = [p for p in f.params if p != 'self']
        state = params[1] if len(params) > 1 else None
        n_ob = 0
        bad = {id(p) for w, p, via, nid in s['partial']}
        for pid_, (past, cs) in sorted(s['P'].items()):
            if id(past) in bad:
                continue
            n_ob += 1
            rep.ok(rid, f, '%s: `%s` cannot fail after a write of the same '
                   'slot' % (f.qual, short(past, 50)), f.loc(past))
        if not n_ob and not bad:
            rep.ok(rid, f, '%s: no explicit failure point' % f.qual, f.loc())
        for w, past, via, nid in s['partial']:
            pol = None
            if nid is not None and state:
                pol = _state_polarity(prog, f, g, nid, state, free, busy)
            side = {True: 'grant (new_state == BUSY)',
                    False: 'release (new_state == FREE)',
                    None: 'grant and release'}[pol]
            if pol is False:
                hist = ('a finished task is released, the check trips after '
                        'part of the slot was freed: unschedule_task raises, '
                        'the rest of this task and every later task of the '
                        'same bulk keep their cores BUSY')
            else:
                hist = ('a task arrives with slots in its description (cores '
                        '1,2 + more lfs/mem than the node has left, or '
                        'whatever trips the check): cores 1,2 are marked BUSY, '
                        'then the grant raises; _schedule_incoming fails the '
                        'task without counting it and nobody ever sends an '
                        "unschedule for it (via _try_allocation task['slots'] "
                        'is never attached): the cores stay BUSY although no '
                        'task holds them')
            rep.bad(rid, f, past,
                    '%s: the explicit failure `%s`%s can leave the function '
                    'after `%s` was already applied for the same slot (%s '
                    'side), and nothing writes the occupancy back on the way '
                    'out: the slot (and the task) is booked partially, no '
                    'caller knows what to give back'
                    % (f.qual, short(past, 60),
                       (' (reached through %s)' % ' -> '.join(via))
                       if via else '', w, side),
                    f.loc(past) if not via else f.loc(), history=hist)
        for w, past in s['across']:
            rep.info(rid, f, '%s: `%s` precedes the writes of its own slot '
                     'but can fire after earlier slots of the same list were '
                     'applied (`%s`); not armed: atomicity across slots is '
                     'not decided' % (f.qual, short(past, 50), w), f.loc(past))


# ------------------------------------------------------------------------------
# R03.8  who takes a running task out of the registry releases it
#
def _takes_ownership(prog, c07, m):
    """for a method m that performs the locked test-and-remove itself and
    tells its caller the result: (truth of the value returned when the uid
    was registered and has been removed, registry) - else None"""
    g = cfg_of(m)
    arbs = c07._arbitration(prog, m, g)
    if len(arbs) != 1:
        return None
    w, locks, tid, leave, cont, did = arbs[0]
    stay = 'F' if leave == 'T' else 'T'
    rets = {n.id for n in g.nodes if n.kind == 'stmt' and
            isinstance(n.ast, ast.Return)}

    def truths(label):
        start = [e.dst for e in g.succ[tid] if e.label == label]
        r = g.reachable(start, skip_nodes=rets) | \
            {x for x in start if x in rets}
        out = set()
        for x in rets:
            if x in r or any(e.src in r for e in g.pred[x]):
                v = g.nodes[x].ast.value
                if v is None:
                    out.add(False)
                elif isinstance(v, ast.Constant):
                    out.add(bool(v.value))
                else:
                    out.add(None)
        if g.exit.id in r:
            out.add(False)              # falls off the end: returns None
        return out
    won, lost = truths(stay), truths(leave)
    if len(won) == 1 and len(lost) == 1 and None not in won | lost and \
            won != lost:
        return (won.pop(), cont)
    return None


def _ownership_points(prog, c07, cls, f, g):
    """[(test node, [first nodes of the paths on which this function owns the
    task], registry)]: the "uid is registered" edge of a locked
    test-and-remove written in the function itself, or of a test on the
    result of a helper method that performs it"""
    out = []
    for w, locks, tid, leave, cont, did in c07._arbitration(prog, f, g):
        stay = 'F' if leave == 'T' else 'T'
        out.append((g.nodes[tid],
                    [e.dst for e in g.succ[tid] if e.label == stay], cont))
    once = _once_bound_values(f.node, f.params)
    for n in g.nodes:
        if n.kind != 'test':
            continue
        e = n.ast
        if isinstance(e, ast.Name) and e.id in once:
            e = once[e.id]
        if not isinstance(e, ast.Call):
            continue
        m = prog.resolve_call(f, e, cls)
        if m is None or m is f:
            continue
        r = _takes_ownership(prog, c07, m)
        if r is None:
            continue
        lab = 'T' if r[0] else 'F'
        out.append((n, [x.dst for x in g.succ[n.id] if x.label == lab], r[1]))
    return out


def r03_8(prog, rep, rid='R03.8'):
    rep.rule(rid, 'the contender (cancel_task / watcher) that removed a '
             'running task from the shared registry under the lock announces '
             'it for unscheduling on every path that follows: directly, or '
             'by collecting it into the list that is published after the loop '
             '- the other contender skips unregistered uids, so nobody else '
             'will', minimum=3)
    from . import c07
    popen = prog.cls(*c07.POPEN)
    hist = ('the process of a running task exits while its cancellation '
            '(cancel request or timeout) is under way: the contender that '
            'won the test-and-remove on the registry leaves without the '
            'unschedule publication, the other one skips the uid because it '
            'is no longer registered: the cores / gpus stay BUSY and '
            '_active_cnt stays one too high for the rest of the pilot')
    for mname in ('cancel_task', '_check_running'):
        f = prog.find_method(popen, mname)
        if f is None:
            raise AnalysisError('Popen.%s missing' % mname)
        rep.saw(f)
        g = cfg_of(f)
        smap = I.stmt_node_map(g)
        points = _ownership_points(prog, c07, popen, f, g)
        if not points:
            # R07.2 reports the missing arbitration itself
            raise AnalysisError('UNRECOGNISED-IDIOM %s: no locked '
                                'test-and-remove on the task registry'
                                % f.where)
        quiet = c07._noise_exc_edges(g)
        pubs = [c for c in calls_in(f.node)
                if c07._is_unsched_pub(prog, f, c) and len(c.args) > 1]
        for tn, owned, cont in points:
            loops = [h for h in tn.loops]
            if not loops:
                # one call = one task: the parameter is the task
                things = set(p for p in f.params if p != 'self')
                rel = {smap[id(c)].id for c in pubs
                       if c07._thing_name(c.args[1]) in things}
                r = g.reachable(owned, skip_nodes=rel, skip_edges=quiet)
                okay = bool(rel) and g.exit.id not in r
                last = [x for x in r if g.nodes[x].kind == 'stmt' and
                        isinstance(g.nodes[x].ast, ast.Return)]
                rep.check(okay, rid, f, 'Popen.%s: after the removal from %s '
                          'every path to the end publishes the unschedule '
                          'message' % (mname, cont),
                          construct='%s:owned-then-released' % mname,
                          message='Popen.%s: after it removed the uid from %s '
                          '(ownership taken) a path reaches the end of the '
                          'function without publishing the task on the '
                          'unschedule channel%s: the watcher skips uids that '
                          'are not registered, so the resources of the task '
                          'are never released' % (
                              mname, cont, ' (`return` in line %s)' % ', '.join(
                                  str(g.nodes[x].lineno) for x in sorted(last))
                              if last else ''),
                          loc=f.loc(g.nodes[sorted(last)[0]].ast) if last
                          else f.loc(), history=hist)
                continue
            # per item of a loop: direct publication of the item, or
            # collection into the list that is published after the loop
            H = loops[-1]
            body = g.loop_body[H]
            tv = set(stores_in_target(g.nodes[H].ast.target)) \
                if g.nodes[H].kind == 'for' else set()
            lists = {}
            for c in pubs:
                a = c.args[1]
                if isinstance(a, ast.Name) and smap[id(c)].id not in body:
                    lists.setdefault(a.id, []).append(smap[id(c)].id)
            rel = {smap[id(c)].id for c in pubs
                   if smap[id(c)].id in body and
                   c07._thing_name(c.args[1]) in tv}
            collected = set()
            for n in g.nodes:
                if n.id not in body or n.kind != 'stmt':
                    continue
                for c in calls_in(n.ast):
                    if isinstance(c.func, ast.Attribute) and \
                            c.func.attr in ('append', 'extend', 'add') and \
                            isinstance(c.func.value, ast.Name) and \
                            c.func.value.id in lists and c.args and \
                            c07._thing_name(c.args[0]) in tv:
                        rel.add(n.id)
                        collected.add(c.func.value.id)
                if isinstance(n.ast, ast.AugAssign) and \
                        isinstance(n.ast.op, ast.Add) and \
                        isinstance(n.ast.target, ast.Name) and \
                        n.ast.target.id in lists and \
                        c07._thing_name(n.ast.value) in tv:
                    rel.add(n.id)
                    collected.add(n.ast.target.id)
            r = g.reachable(owned, skip_nodes=rel | {H}, skip_edges=quiet)
            ends = [x for x in r if x not in body or
                    any(e.dst == H for e in g.succ[x])]
            okay = bool(rel) and not ends
            at = sorted(ends, key=lambda x: g.nodes[x].lineno)
            rep.check(okay, rid, f, 'Popen.%s: after the removal from %s every '
                      'path through the iteration releases the task (published '
                      'or collected for the bulk publication)' % (mname, cont),
                      construct='%s:owned-then-collected' % mname,
                      message='Popen.%s: after it removed the uid from %s '
                      '(ownership taken) the iteration can end without the '
                      'task being published on the unschedule channel or '
                      'collected for the bulk publication%s: cancel_task '
                      'skips uids that are not registered, so the resources '
                      'of the task are never released' % (
                          mname, cont, (' (line %d)' % g.nodes[at[0]].lineno)
                          if at else ''),
                      loc=f.loc(g.nodes[at[0]].ast) if at and
                      g.nodes[at[0]].ast is not None else f.loc(),
                      history=hist)
            # the bulk publication after the loop, skipped at most when the
            # list is empty
            if not collected:
                rep.ok(rid, f, 'Popen.%s: released per task inside the loop'
                       % mname, f.loc())
                continue
            for lst in sorted(collected):
                after = [e.dst for x in body | {H} for e in g.succ[x]
                         if e.dst not in body and e.dst != H and
                         e.label != 'exc']
                empties = [(n.id, 'F') for n in g.nodes if n.kind == 'test'
                           and isinstance(n.ast, ast.Name) and n.ast.id == lst]
                r = g.reachable(after, skip_nodes=set(lists[lst]),
                                skip_edges=empties + quiet)
                rep.check(g.exit.id not in r, rid, f, 'Popen.%s: the collected '
                          'list %s is published on the unschedule channel on '
                          'every path after the loop' % (mname, lst),
                          construct='%s:bulk-publication' % mname,
                          message='Popen.%s: tasks collected in %s after their '
                          'removal from %s are not published on the unschedule '
                          'channel on every path after the loop (conditional '
                          'on something else than the list being empty)'
                          % (mname, lst, cont), loc=f.loc(), history=hist)


# ------------------------------------------------------------------------------
# R03.10  what a task is handed is what was found free for it.  A search
# tests the state of one element of the node's core / gpu list and records an
# index for it; _change_slot_states later marks `node[kind][index]` and the
# release frees it.  The index recorded must address, in the node's list, the
# very element that was tested - else the task is handed (and later frees) a
# core another task holds.  Decided on the iteration domain of each pick:
#   for i, x in enumerate(L[a:], a)   i addresses x in L iff the count starts
#                                     where the slice starts
#   for x in L: .. index=x.index      the element's own index
#   if L[i] == FREE: .. index=i       tested and recorded through one cursor
#
def _pick_index(g, call, P):
    """the index expression recorded by the pick `<list>.append(<entry>)`"""
    from .c02 import _hoisted
    if not call.args:
        return None
    entry = _hoisted(g, call.args[0], P.id)[0]
    if isinstance(entry, ast.Call):
        return kwarg(entry, 'index', 0)
    if isinstance(entry, ast.Dict):
        for k, v in zip(entry.keys, entry.values):
            if isinstance(k, ast.Constant) and k.value == 'index':
                return v
        return None
    return entry


def _is_zero(e):
    return e is None or (isinstance(e, ast.Constant) and e.value == 0 and
                         not isinstance(e.value, bool))


def check_pick_index(prog, rep, rid, label, f, g, P, call, kind, loc):
    from .c02 import _hoisted, origin
    from ..flow import reaching_defs
    E = _pick_index(g, call, P)
    if E is None:
        raise AnalysisError('UNRECOGNISED-IDIOM %s: no index is recorded by '
                            '`%s`' % (f.where, short(call, 50)))
    ed = Deps(f.node, implicit=False)
    tests = [g.nodes[t] for t, lab in guards(g, P.id)
             if g.nodes[t].ast is not None]
    hist = ('node 0 of the pilot: task A holds cores 0 and 1; task B (2 '
            'ranks x 2 cores) is placed on the same node: its second rank '
            'tests cores 4, 5 and is handed 0, 1; releasing B frees the '
            'cores A still runs on and a third task is granted them')

    def same_list(e, at):
        e = _hoisted(g, e, at)[0]
        return unparse(e) == loc

    # (b) the element's own index: `for x in L` .. index = x.<attr>
    if isinstance(E, ast.Attribute) and isinstance(E.value, ast.Name):
        x = E.value.id
        defs = reaching_defs(g, x, P.id)
        heads = [n for n, v in defs if n.kind == 'for']
        if len(defs) == 1 and heads and isinstance(heads[0].ast.target,
                                                  ast.Name):
            H = heads[0]
            it = H.ast.iter
            rep.check(same_list(it, H.id), rid, f,
                      '%s: `%s` records the own index of the element of %s '
                      'that is tested' % (label, short(call, 40), loc),
                      construct='%s:%s:index:%s' % (label, kind, unparse(E)),
                      message='%s: `%s` records `%s`, the index field of an '
                      'element of `%s`; the %s of the node are %s'
                      % (label, short(call, 50), unparse(E), short(it, 40),
                         kind, loc), loc=f.loc(call), history=hist)
            return
        raise AnalysisError('UNRECOGNISED-IDIOM %s: `%s` is not the element '
                            'of a plain loop over %s' % (f.where, x, loc))
    if not isinstance(E, ast.Name):
        raise AnalysisError('UNRECOGNISED-IDIOM %s: the index recorded by '
                            '`%s` is computed (`%s`)' % (f.where,
                                                         short(call, 40),
                                                         short(E, 30)))
    i = E.id
    defs = reaching_defs(g, i, P.id)
    heads = [n for n, v in defs if n.kind == 'for']
    # (a) index and element come from one enumerate()
    if heads:
        H = heads[0]
        tg, it = H.ast.target, H.ast.iter
        if len(defs) != 1 or not (
                isinstance(tg, (ast.Tuple, ast.List)) and len(tg.elts) == 2
                and isinstance(tg.elts[0], ast.Name) and tg.elts[0].id == i
                and isinstance(tg.elts[1], ast.Name)
                and isinstance(it, ast.Call) and dotted(it.func) == 'enumerate'
                and it.args):
            # a cursor that happens to be a loop variable: range() scans
            it = None
            # `for i in <local list of indices>` (a chunk cut from the list
            # of indices collected beforehand): the entry re-groups indices
            # that the collecting pick recorded - that pick is checked
            src = _hoisted(g, H.ast.iter, H.id)[0]
            while isinstance(src, ast.Subscript) and isinstance(src.slice,
                                                                 ast.Slice):
                src = src.value
            if len(defs) == 1 and isinstance(tg, ast.Name) and \
                    isinstance(src, ast.Name) and \
                    src.id != loc.split('[')[0].split('.')[0] and \
                    any(isinstance(c.func, ast.Attribute) and
                        c.func.attr in ('append', 'extend') and
                        isinstance(c.func.value, ast.Name) and
                        c.func.value.id == src.id
                        for c in calls_in(f.node)):
                rep.ok(rid, f, '%s: `%s` re-groups indices collected in `%s`'
                       % (label, short(call, 40), src.id), f.loc(call))
                return
        if it is not None:
            x = tg.elts[1].id
            if not any(x in ed.expr_depends(t.ast) for t in tests):
                raise AnalysisError(
                    'UNRECOGNISED-IDIOM %s: no guard of `%s` reads the '
                    'element `%s` that is enumerated with the index'
                    % (f.where, short(call, 40), x))
            seq = _hoisted(g, it.args[0], H.id)[0]
            start = kwarg(it, 'start', 1)
            lower = None
            if isinstance(seq, ast.Subscript) and isinstance(seq.slice,
                                                             ast.Slice):
                sl = seq.slice
                if not (sl.step is None or (isinstance(sl.step, ast.Constant)
                                            and sl.step.value == 1)):
                    raise AnalysisError('UNRECOGNISED-IDIOM %s: stepped '
                                        'slice `%s`' % (f.where,
                                                        short(seq, 40)))
                lower, seq = sl.lower, seq.value
            if not same_list(seq, H.id):
                raise AnalysisError(
                    'UNRECOGNISED-IDIOM %s: `%s` enumerates `%s`, which is '
                    'not (a slice of) %s' % (f.where, short(H.ast.iter, 50),
                                             short(seq, 30), loc))

            def term(e):
                return None if _is_zero(e) else unparse(
                    _hoisted(g, e, H.id)[0])
            ok = term(start) == term(lower) or (
                not _is_zero(start) and not _is_zero(lower) and
                unparse(start) == unparse(lower))
            rep.check(ok, rid, f,
                      '%s: `%s` counts from where the slice starts: the '
                      'index recorded for an element is its index in %s'
                      % (label, short(H.ast.iter, 60), loc),
                      construct='%s:%s:enumerate-start' % (label, kind),
                      message='%s: the %s are scanned with `%s`: the element '
                      'tested in round k is %s[%s + k], the index recorded '
                      'for it by `%s` is %s + k.  The index does not address '
                      'the element that was found free: the slot names %s '
                      'that were never tested (held by another task, or '
                      'handed to the previous rank of the same task); '
                      '_change_slot_states marks them, and the release of '
                      'this task frees them while the other task still runs'
                      % (label, kind, short(H.ast.iter, 70), loc,
                         '0' if _is_zero(lower) else unparse(lower),
                         short(call, 40),
                         '0' if _is_zero(start) else unparse(start), kind),
                      loc=f.loc(H.ast), history=hist)
            return
    # (c) one cursor: the guard tests L[i], the pick records i
    subs = []
    for t in tests:
        # the test itself and what its hoisted operands were computed from,
        # each looked at where it is evaluated
        exprs = [(t.ast, t.id)]
        for x in walk(t.ast):
            if isinstance(x, ast.Name):
                e, at = _hoisted(g, x, t.id)
                if e is not x:
                    exprs.append((e, at))
        for top, at in exprs:
            for e in walk(top):
                if isinstance(e, ast.Subscript) and \
                        not isinstance(e.slice, ast.Slice) and \
                        same_list(e.value, at):
                    subs.append((g.nodes[at], e))
    if not subs:
        raise AnalysisError('UNRECOGNISED-IDIOM %s: how the index `%s` '
                            'recorded by `%s` relates to the element of %s '
                            'that is tested is not recognised'
                            % (f.where, i, short(call, 40), loc))
    for t, e in subs:
        j = e.slice
        ok = isinstance(j, ast.Name) and j.id == i and \
            origin(g, i, t.id) == origin(g, i, P.id)
        rep.check(ok, rid, f,
                  '%s: `%s` tests %s[%s] and the pick records %s, unchanged '
                  'in between' % (label, short(t.ast, 40), loc, i, i),
                  construct='%s:%s:cursor' % (label, kind),
                  message='%s: the guard `%s` tests the element `%s` of the '
                  'node\'s %s, the pick `%s` records the index `%s`%s: the '
                  'index recorded is not the one that was found free'
                  % (label, short(t.ast, 50), short(e, 40), kind,
                     short(call, 40), i,
                     '' if not (isinstance(j, ast.Name) and j.id == i)
                     else ' after it was changed'),
                  loc=f.loc(call), history=hist)


def r03_10(prog, rep, rid='R03.10'):
    from .c01 import find_resources_info, pick_sites
    rep.rule(rid, 'every search records, for a core / gpu it found free, the '
             "index that addresses the tested element in the node's list "
             '(enumerate() over a slice counts from the start of the slice; '
             "the element's own index; one cursor for test and record): "
             'while a task holds resources nothing it holds is offered to '
             'another task', minimum=7)
    base, classes = sched_classes(prog)
    todo = []
    for K in classes:
        f, g, d, nodevar, res, appends = find_resources_info(prog, K)
        todo.append((K.name, f, g, d, {'cores': "%s['cores']" % nodevar,
                                       'gpus': "%s['gpus']" % nodevar}))
    node = prog.cls(*NODE)
    f = prog.find_method(node, 'find_slot')
    if f is None:
        raise AnalysisError('Node.find_slot not found')
    todo.append(('Node.find_slot', f, cfg_of(f), Deps(f.node),
                 {'cores': 'self.cores', 'gpus': 'self.gpus'}))
    for label, f, g, d, kinds_loc in todo:
        rep.saw(f)
        if label == 'Node.find_slot':
            # which list a pick fills is decided by the object that reaches
            # Slot(cores=.., gpus=..): a shared helper inlined twice uses one
            # local name for both
            from .c02 import _slot_picks
            smap = I.stmt_node_map(g)
            made = [c for c in calls_in(f.node) if dotted(c.func) == 'Slot'
                    and id(c) in smap and any(k.arg in kinds_loc
                                              for k in c.keywords)]
            picks = [(P, c, kind) for P, c, kind, kill in
                     _slot_picks(f, g, smap, made)]
        else:
            picks = pick_sites(prog, f, g, d, kinds_loc)
        if not picks:
            raise AnalysisError('UNRECOGNISED-IDIOM %s: no pick of a core / '
                                'gpu index found' % f.where)
        for P, call, kind in picks:
            check_pick_index(prog, rep, rid, label, f, g, P, call, kind,
                             kinds_loc[kind])


# ------------------------------------------------------------------------------
# R03.11  the node whose occupancy is written for a slot is the node the slot
# names.  A slot carries the *index* of its node; the node list may have been
# filtered (inaccessible nodes dropped when backup nodes are configured), so
# positions and indices differ.  Every binding of the node variable that
# reaches an occupancy write (a store through it, or its hand-over to a
# helper that writes) must be a *selection by index*: between the binding and
# the write every path takes the equality edge of a comparison of the bound
# node's index field with the slot's node_index (search loop left on the
# match; position guessed, then verified), or the binding is a look-up that
# matches by construction (helper that returns such a selection, a map keyed
# by the index field, a filter on it).  Taking `self.nodes[<node_index>]`
# unverified marks / frees another node than the one granted.
#
def _last_key(e):
    if isinstance(e, ast.Subscript) and isinstance(e.slice, ast.Constant) \
            and isinstance(e.slice.value, str):
        return e.slice.value
    if isinstance(e, ast.Attribute):
        return e.attr
    return None


class _NodeSelection:

    DEPTH = 4

    def __init__(self, prog, K, base, top):
        from .c01 import _only_def
        self._only_def = _only_def
        self.prog, self.K, self.top = prog, K, top
        self.an = _Atomicity(prog, K, base)
        self.al = self.an.al
        params = [p for p in top.params if p != 'self']
        if not params:
            raise AnalysisError('UNRECOGNISED-IDIOM %s: parameters'
                                % top.where)
        self.sal = I.Aliases(prog, K, {top.name: top}, params[0])
        self.problems = {}          # key -> (f, ast node, message)
        self.sites = set()          # node variables judged
        self.busy = set()

    # -- vocabulary ------------------------------------------------------------
    def once(self, f):
        return _once_bound_values(f.node, f.params)

    def is_nodelist(self, f, e, depth=0):
        if isinstance(e, ast.Call) and dotted(e.func) in ('list', 'tuple') \
                and len(e.args) == 1 and not e.keywords:
            return self.is_nodelist(f, e.args[0], depth)
        if isinstance(e, ast.Name) and depth < 3:
            v = self.once(f).get(e.id)
            return v is not None and self.is_nodelist(f, v, depth + 1)
        return I.is_path(e) and unparse(e) == self.al.root

    def slot_index(self, f, env, e, strict=False):
        """True: e is the node index a slot carries (`<slot>['node_index']`,
        a local that stands for it, a helper parameter that receives it);
        False: it is something else.  strict: what cannot be classified is
        an unrecognised idiom, not "something else" """
        e = self._only_def(f, e)
        if isinstance(e, ast.Constant):
            return False
        if isinstance(e, ast.Name):
            if e.id in env:
                return env[e.id] == 'node_index'
            if strict:
                self.unknown(f, 'what `%s` holds when it is compared with '
                             'the index of a node' % e.id)
            return False
        key = _last_key(e)
        if key is None or not I.is_path(e):
            if strict:
                self.unknown(f, 'what `%s` is when it is compared with the '
                             'index of a node' % short(e, 40))
            return False
        if key != 'node_index':
            return False
        b = e.value
        if isinstance(b, ast.Name) and b.id in env:
            return env[b.id] == 'slot'
        # a node has no node_index field: what carries one is a slot
        return not (f.name in self.al.rooted and
                    self.al.methods.get(f.name) is f and
                    self.al.is_rooted_expr(f.name, b))

    def is_slot(self, f, env, e):
        if isinstance(e, ast.Name) and e.id in env:
            return env[e.id] == 'slot'
        return f is self.top and self.sal.is_rooted_expr(f.name, e) and \
            not self.slot_index(f, env, e)

    def node_index_of(self, f, e, nv):
        e = self._only_def(f, e)
        return _last_key(e) == 'index' and isinstance(e.value, ast.Name) \
            and e.value.id == nv

    def is_match(self, f, env, cmp_, nv):
        """'T' / 'F': the edge of the comparison on which the index field of
        `nv` equals the slot's node index; None: not such a comparison"""
        if not (isinstance(cmp_, ast.Compare) and len(cmp_.ops) == 1):
            return None
        op = cmp_.ops[0]
        if isinstance(op, (ast.Eq, ast.Is)):
            lab = 'T'
        elif isinstance(op, (ast.NotEq, ast.IsNot)):
            lab = 'F'
        else:
            return None
        l, r = cmp_.left, cmp_.comparators[0]
        li, ri = self.node_index_of(f, l, nv), self.node_index_of(f, r, nv)
        if li == ri:
            return None
        return lab if self.slot_index(f, env, r if li else l, strict=True) \
            else None

    def match_edges(self, f, g, env, nv):
        out = []
        for n in g.nodes:
            if n.kind == 'test' and n.ast is not None:
                lab = self.is_match(f, env, n.ast, nv)
                if lab:
                    out.append((n.id, lab))
        return out

    def binders(self, g, name):
        ids = set()
        for n in g.nodes:
            if n.ast is None:
                continue
            if n.kind == 'stmt' and isinstance(n.ast, (
                    ast.Assign, ast.AnnAssign, ast.AugAssign)):
                tg = n.ast.targets if isinstance(n.ast, ast.Assign) \
                    else [n.ast.target]
                if any(name in stores_in_target(t) for t in tg):
                    ids.add(n.id)
            elif n.kind == 'for' and name in stores_in_target(n.ast.target):
                ids.add(n.id)
        return ids

    def reach(self, f, g, D, W, name, match=()):
        """the use W is reached with the binding D of `name` still in force
        (for a loop head: bound by a round of the loop and left from inside
        it - a new round is a new binding, running off the end selects
        nothing) and without an edge of `match` taken since.  Paths are
        followed from the entry with the constant-valued flags of f evaluated
        (`node_found = False` .. `if not node_found: raise`)."""
        from .c02 import _const_flags, _truth as _truth3
        flags = _const_flags(f)
        binders = self.binders(g, name)
        match = set(match)
        todo = [(g.entry.id, (), False)]
        seen = set()
        while todo:
            k = todo.pop()
            if k in seen:
                continue
            seen.add(k)
            nid, st, live = k
            if nid == W.id and live and nid != D.id:
                return True
            n = g.nodes[nid]
            known = dict(st)
            for e in g.succ[nid]:
                st2, live2 = st, live
                if n.kind == 'test' and e.label in ('T', 'F') and \
                        n.ast is not None:
                    v = _truth3(n.ast, known)
                    if v is not None and v != (e.label == 'T'):
                        continue
                    if (nid, e.label) in match:
                        live2 = False
                elif n.kind == 'stmt' and e.label != 'exc' and \
                        isinstance(n.ast, ast.Assign) and \
                        len(n.ast.targets) == 1 and \
                        isinstance(n.ast.targets[0], ast.Name) and \
                        n.ast.targets[0].id in flags:
                    k2 = dict(known)
                    k2[n.ast.targets[0].id] = n.ast.value.value
                    st2 = tuple(sorted(k2.items(), key=lambda kv: kv[0]))
                if nid == D.id:
                    live2 = e.label != 'exc' and (D.kind != 'for' or
                                                  e.label == 'iter')
                    if live2 and e.dst == W.id and W.id == D.id:
                        return True
                elif nid in binders and e.label != 'exc':
                    live2 = False
                todo.append((e.dst, st2, live2))
        return False

    def verified(self, f, g, env, D, W, name):
        return not self.reach(f, g, D, W, name,
                              self.match_edges(f, g, env, name))

    # -- findings --------------------------------------------------------------
    def problem(self, kind, f, node, text):
        self.problems.setdefault((kind, f.qual, short(node, 60)),
                                 (f, node, text))

    def unknown(self, f, what):
        raise AnalysisError('UNRECOGNISED-IDIOM %s: %s' % (f.where, what))

    # -- judging ---------------------------------------------------------------
    def use(self, f, env, name, W, depth=0):
        """the node held by `name` at cfg node W of f is written to"""
        from ..flow import reaching_defs
        if depth > 8:
            self.unknown(f, 'alias chain of the node variable %r' % name)
        g = cfg_of(f)
        defs = reaching_defs(g, name, W.id)
        if not defs:
            if name in f.params and f is not self.top:
                return              # judged where the helper is called
            self.unknown(f, 'no binding of the node variable %r' % name)
        for D, v in defs:
            if D.kind == 'for':
                self.loop_def(f, g, env, name, D, W)
            elif v is None or isinstance(D.ast, ast.AugAssign):
                self.unknown(f, 'binding of the node variable by `%s`'
                             % short(D.ast, 50))
            else:
                self.value(f, g, env, name, D, v, W, depth)

    def loop_def(self, f, g, env, name, D, W):
        it = D.ast.iter
        tg = D.ast.target
        if isinstance(it, ast.Call) and dotted(it.func) == 'enumerate' and \
                it.args and isinstance(tg, (ast.Tuple, ast.List)) and \
                len(tg.elts) == 2 and isinstance(tg.elts[1], ast.Name) and \
                tg.elts[1].id == name:
            it = it.args[0]
        elif not (isinstance(tg, ast.Name) and tg.id == name):
            self.unknown(f, 'binding of the node variable by `for %s in %s`'
                         % (short(tg, 30), short(it, 30)))
        if not self.is_nodelist(f, it):
            self.unknown(f, 'the node variable %r iterates `%s`'
                         % (name, short(it, 40)))
        if not self.reach(f, g, D, W, name):
            self.problem('exhausted', f, D.ast,
                         '%s: `%s` is reached from the loop `for %s in %s` '
                         'only after the loop ran to its end: the node '
                         'written is the last one of the list, whatever node '
                         'the slot names' % (f.qual, short(W.ast, 50),
                                             short(tg, 20), short(it, 30)))
        elif not self.verified(f, g, env, D, W, name):
            self.problem('unmatched', f, D.ast,
                         "%s: the search `for %s in %s` can be left towards "
                         "`%s` without the comparison %s['index'] == <the "
                         "slot's node_index> having succeeded for the node "
                         "that is then written: the occupancy of another "
                         "node than the one the slot names is changed"
                         % (f.qual, short(tg, 20), short(it, 30),
                            short(W.ast, 50), name))

    def positional(self, f, path):
        """the sub-expression `<node list>[<position>]` of an access path"""
        e = path
        while isinstance(e, (ast.Attribute, ast.Subscript, ast.Starred)):
            if isinstance(e, ast.Subscript) and \
                    not isinstance(e.slice, ast.Slice) and \
                    self.is_nodelist(f, e.value):
                return e
            e = e.value
        return None

    def by_position(self, f, env, sub, stmt):
        if self.slot_index(f, env, sub.slice):
            self.problem('position', f, stmt,
                         "%s: `%s` takes the node at list position <the "
                         "slot's node_index> and nothing verifies that the "
                         "node found there carries that index before its "
                         "occupancy is written.  Node indices and list "
                         "positions differ as soon as the node list was "
                         "filtered (a node found inaccessible is dropped "
                         "when backup nodes are configured): the cores / "
                         "gpus / lfs / mem of another node are marked, the "
                         "node the task really got keeps looking free and "
                         "is handed to the next task; the release frees "
                         "the wrong node as well"
                         % (f.qual, short(stmt, 60)))
        else:
            self.unknown(f, 'the node is taken at the computed position '
                         '`%s`' % short(sub, 50))

    def value(self, f, g, env, name, D, v, W, depth):
        if isinstance(v, ast.Constant):
            return                  # None: nothing can be written through it
        if name is not None and self.verified(f, g, env, D, W, name):
            return                  # whatever was taken is checked afterwards
        if isinstance(v, ast.Name):
            if v.id in self.once(f) and not I.is_path(self.once(f)[v.id]):
                return self.value(f, g, env, None, D, self.once(f)[v.id], W,
                                  depth + 1)
            return self.use(f, env, v.id, D, depth + 1)
        if I.is_path(v):
            sub = self.positional(f, v)
            if sub is not None:
                return self.by_position(f, env, sub, D.ast)
            r = root_name(v)
            if r in self.al.rooted.get(f.name, ()) or (
                    r in f.params and f is not self.top):
                return self.use(f, env, r, D, depth + 1)
            self.unknown(f, 'the node variable is bound to `%s`'
                         % short(v, 50))
        if isinstance(v, ast.Call):
            callee = self.prog.resolve_call(f, v, self.K)
            if callee is not None and callee is not f:
                return self.returned(f, env, v, callee, depth)
        self.unknown(f, 'how `%s` selects the node of the slot'
                     % short(D.ast if D.ast is not None else v, 60))

    def bind_env(self, f, env, call, callee):
        params = [p for p in callee.params if p != 'self']
        env2 = {}
        pairs = list(zip(params, call.args)) + [
            (k.arg, k.value) for k in call.keywords if k.arg in params]
        for p, a in pairs:
            if isinstance(a, ast.Starred):
                continue
            if self.slot_index(f, env, a):
                env2[p] = 'node_index'
            elif self.is_slot(f, env, a):
                env2[p] = 'slot'
        return env2

    def returned(self, f, env, call, callee, depth):
        """the node is what a helper returns: every returned value is judged
        in the helper, its parameters standing for the arguments"""
        if depth >= self.DEPTH or (id(callee.node), 'ret') in self.busy:
            self.unknown(f, 'helper chain behind `%s`' % short(call, 40))
        env2 = self.bind_env(f, env, call, callee)
        g2 = cfg_of(callee)
        self.busy.add((id(callee.node), 'ret'))
        try:
            n_ret = 0
            for R in g2.nodes:
                if R.kind != 'stmt' or not isinstance(R.ast, ast.Return):
                    continue
                v = R.ast.value
                if v is None or isinstance(v, ast.Constant):
                    continue
                n_ret += 1
                if isinstance(v, ast.Name):
                    self.use(callee, env2, v.id, R, depth + 1)
                else:
                    self.value(callee, g2, env2, None, R, v, R, depth + 1)
            if not n_ret:
                self.unknown(f, '`%s` returns no node' % short(call, 40))
        finally:
            self.busy.discard((id(callee.node), 'ret'))

    def writes(self, f, env=None, depth=0):
        """judge every occupancy write of f (and of the helpers it hands a
        node or a slot to)"""
        env = env or {}
        g = cfg_of(f)
        n_w = 0
        for n in g.nodes:
            for root in _node_roots(n):
                for kind, target, stmt in I.stores(root):
                    if not self.an._rooted(f, target):
                        continue
                    n_w += 1
                    sub = self.positional(f, target)
                    if sub is not None:
                        self.sites.add((f.qual, short(sub, 40)))
                        self.by_position(f, env, sub, stmt)
                        continue
                    r = root_name(target)
                    if r is None or r == 'self':
                        self.unknown(f, 'occupancy write `%s`'
                                     % short(stmt, 50))
                    self.sites.add((f.qual, r))
                    self.use(f, env, r, n)
                for c in calls_in(root):
                    if depth >= self.DEPTH:
                        continue
                    callee = self.prog.resolve_call(f, c, self.K)
                    if callee is None or callee is f or \
                            not self.an.summary(callee)['writes'] or \
                            self.an.methods.get(callee.name) is not callee:
                        continue
                    n_w += 1
                    for a in list(c.args) + [k.value for k in c.keywords]:
                        if isinstance(a, ast.Starred) or \
                                not self.al.is_rooted_expr(f.name, a) or \
                                self.is_nodelist(f, a):
                            continue
                        sub = self.positional(f, a) if I.is_path(a) else None
                        if sub is not None:
                            self.sites.add((f.qual, short(sub, 40)))
                            self.by_position(f, env, sub, c)
                        elif I.is_path(a) and root_name(a) != 'self':
                            self.sites.add((f.qual, root_name(a)))
                            self.use(f, env, root_name(a), n)
                        else:
                            self.unknown(f, 'node handed to `%s`'
                                         % short(c, 50))
                    key = (id(callee.node), 'w')
                    if key not in self.busy:
                        self.busy.add(key)
                        try:
                            self.writes(callee, self.bind_env(f, env, c,
                                                              callee),
                                        depth + 1)
                        finally:
                            self.busy.discard(key)
        return n_w


def r03_11(prog, rep, rid='R03.11'):
    rep.rule(rid, "the node whose occupancy _change_slot_states writes for a "
             "slot was selected by its index: every binding of the node that "
             "reaches a write passed `node['index'] == slot['node_index']` "
             "(search left on the match, or a position that is verified), "
             'never the bare list position', minimum=2)
    base, classes = sched_classes(prog)
    seen = set()
    for K in classes:
        f = prog.find_method(K, '_change_slot_states')
        if f is None:
            raise AnalysisError('%s._change_slot_states missing' % K.name)
        if id(f) in seen:
            continue
        seen.add(id(f))
        rep.saw(f)
        sel = _NodeSelection(prog, K, base, f)
        if not sel.writes(f):
            raise AnalysisError('R03.11: %s: no write through self.nodes '
                                'found' % f.where)
        if not sel.sites:
            raise AnalysisError('UNRECOGNISED-IDIOM %s: no node variable is '
                                'written through' % f.where)
        if not sel.problems:
            for q, nv in sorted(sel.sites):
                rep.ok(rid, f, '%s: every binding of `%s` that reaches an '
                       'occupancy write is a selection by node index'
                       % (q, nv), f.loc())
        for (kind, q, txt), (ff, node, msg) in sorted(
                sel.problems.items(), key=lambda kv: kv[0]):
            rep.bad(rid, f, '%s:%s:%s' % (q, kind, txt), msg,
                    ff.loc(node) if isinstance(node, ast.AST) else ff.loc(),
                    history='backup nodes configured, node_01 found '
                    'inaccessible: the node list keeps the indices [0, 2, '
                    '3].  A task is placed on the node with index 2: BUSY is '
                    'written to list position 2 (the node with index 3), the '
                    'node with index 2 still shows its cores FREE and '
                    '_find_resources hands the very same cores to the next '
                    'task while the first one runs; the release then frees '
                    'cores of the node with index 3 which a third task may '
                    'hold')


# ------------------------------------------------------------------------------
#
def run(prog, rep, tier):
    rep.decided = ('debit/credit symmetry of _change_slot_states (both '
        'schedulers) and of Node.allocate_slot/deallocate_slot including the '
        'conditions they run under; unschedule_task frees exactly '
        "task['slots'] with FREE for every task; _active_cnt is written only "
        'by grant (+1 on every granting path) and release (-1 once per queued '
        'task), every queued task is released; the unschedule message reaches '
        'the scheduler loop and is kept; single writer of occupancy (R01.1 '
        're-evaluated: a second writer is what makes a failed multi-node '
        'search leak); roll-back of a partial NodeList.find_slots; one '
        'unschedule publication per finish path (R07.1, re-evaluated from the '
        'C07 module when present); one slot is applied all-or-nothing by '
        '_change_slot_states: no explicit failure point (raise / assert / '
        'resolved raising callee, helpers followed) after a write of the same '
        'slot without a roll-back on the way out (R03.7); signed / '
        'operator-valued spellings of the lfs/mem update are evaluated per '
        'direction (R03.1); the credit of a quantity runs under no slot '
        'condition its debit does not run under (R03.12); the contender that won the registry arbitration '
        'in the Popen executor releases on every path that follows, also '
        'when the arbitration sits in a helper (R03.8); the node whose '
        'occupancy is written for a slot was selected by comparing its index '
        "with the slot's node_index on every path from its binding to the "
        'write - search left on the match, guessed position verified, lookup '
        'helpers followed - never the bare list position (R03.11).')
    rep.undecided = ('the NUMA-domain path (NumaNode.find_slot allocates on '
        'per-domain Node objects while release_slots credits the top-level '
        'node): needs alias reasoning over objects built at run time; real '
        'interleavings between executor threads; atomicity across the slots '
        'of one list (a failure at slot k after slots < k were applied - the '
        'node lookup of the unchanged tree already is one, see the R03.7 '
        'information lines) and implicit failures (KeyError / IndexError of '
        'a malformed slot) inside the occupancy writer.')
    rep.assumptions = [
        'scope: AgentSchedulingComponent, Continuous, ContinuousJsrun, '
        'resource_config.Node/NodeList',
        'zmq pubsub delivers every published unschedule message once',
    ]
    rep.attempt(r03_1, prog, rep)
    rep.attempt(r03_12, prog, rep)
    rep.attempt(r03_2, prog, rep)
    rep.attempt(r03_3, prog, rep)
    rep.rule('R04.4', 'a release is reported to the scheduler loop (first '
             'result of _unschedule_completed)', minimum=1)
    rep.rule('R03.4b', 'single writer of occupancy (R01.1)', minimum=8)
    rep.attempt(r01_1, prog, rep, rid='R03.4b')
    rep.attempt(r03_5, prog, rep)
    rep.attempt(r03_6, prog, rep)
    rep.attempt(r03_7, prog, rep)
    rep.attempt(r03_10, prog, rep)
    rep.attempt(r03_11, prog, rep)
    try:
        from . import c07
        if hasattr(c07, 'r07_1'):
            # only the release side matters here: the late-cancel path
            # (known finding K2 of C07) hands on twice but releases once
            rep.attempt(c07.r07_1, prog, rep, rid='R03.4', pub_only=True)
            # releases racing with cancellation: both contenders release only
            # after the locked test-and-remove
            rep.attempt(c07.r07_2, prog, rep, rid='R07.2')
            # the winner of that arbitration releases on every path
            rep.attempt(r03_8, prog, rep)
            # tasks handed to the collector / timeout watcher while it drains
            # its list are not lost (a lost task is never released): the
            # drain rule of C07 re-evaluated for the release side
            if hasattr(c07, 'r07_8'):
                rep.attempt(c07.r07_8, prog, rep, rid='R03.9')
    except ImportError:
        pass


# ------------------------------------------------------------------------------
_B = 'agent/scheduler/base.py'
_C = 'agent/scheduler/continuous.py'
_J = 'agent/scheduler/continuous_jsrun.py'
_N = 'resource_config.py'
_P = 'agent/executing/popen.py'

from . import c02 as _c02          # edit builders of the find_slot shapes

MUTATIONS = [
    dict(name='R03.1 lfs credited with mem', rules=('R03.1',), edits=[
        (_B, "                else:\n                    node['lfs'] += slot['lfs']\n", "                else:\n                    node['lfs'] += slot['mem']\n")]),
    dict(name='R03.1 mem never credited', rules=('R03.1',), edits=[
        (_B, "                if new_state == rpc.BUSY:\n                    node['mem'] -= slot['mem']\n                else:\n                    node['mem'] += slot['mem']\n",
             "                if new_state == rpc.BUSY:\n                    node['mem'] -= slot['mem']\n")]),
    dict(name='R03.1 debit under FREE', rules=('R03.1',), edits=[
        (_J, "            if slot['lfs']:\n                if new_state == rpc.BUSY:", "            if slot['lfs']:\n                if new_state == rpc.FREE:")]),
    dict(name='R03.1 both directions subtract', rules=('R03.1',), edits=[
        (_J, "                else:\n                    node['mem'] += slot['mem']\n", "                else:\n                    node['mem'] -= slot['mem']\n")]),
    dict(name='R03.1 gpus always marked BUSY', rules=('R03.1',), edits=[
        (_B, "                node['gpus'][gpu['index']] = new_state\n", "                node['gpus'][gpu['index']] = rpc.BUSY\n")]),
    dict(name='R03.1 cores only marked on BUSY', rules=('R03.1',), edits=[
        (_B, "            for core in slot['cores']:\n                node['cores'][core['index']] = new_state\n", "            for core in slot['cores']:\n                if new_state == rpc.BUSY:\n                    node['cores'][core['index']] = new_state\n")]),
    dict(name='R03.1 Node credit unconditional (F18 reverted)', rules=('R03.1',), edits=[
        (_N, "            if self.lfs is not None: self.lfs += slot.lfs\n", "            self.lfs += slot.lfs\n")]),
    dict(name='R03.1 Node gpu occupation not credited', rules=('R03.1',), edits=[
        (_N, "            for ro in slot.gpus:\n                self.gpus[ro.index].occupation -= ro.occupation\n", "")]),
    dict(name='R03.1 Node core credit uses full occupancy', rules=('R03.1',), edits=[
        (_N, "                self.cores[ro.index].occupation -= ro.occupation\n", "                self.cores[ro.index].occupation -= BUSY\n")]),
    dict(name='R03.2 release frees only the first slot', rules=('R03.2',), edits=[
        (_C, "            self._change_slot_states(task['slots'], rpc.FREE)", "            self._change_slot_states(task['slots'][:1], rpc.FREE)")]),
    dict(name='R03.2 release marks BUSY', rules=('R03.2',), edits=[
        (_J, "            self._change_slot_states(task['slots'], rpc.FREE)", "            self._change_slot_states(task['slots'], rpc.BUSY)")]),
    dict(name='R03.2 release skipped for failed tasks', rules=('R03.2',), edits=[
        (_C, "            self._change_slot_states(task['slots'], rpc.FREE)", "            if task.get('target_state') != 'FAILED':\n                self._change_slot_states(task['slots'], rpc.FREE)")]),
    dict(name='R03.3 grant not counted', rules=('R03.3',), edits=[
        (_B, "            self._active_cnt += 1\n\n            # the task was placed", "            # the task was placed")]),
    dict(name='R03.3 counted before the search result is known', rules=('R03.3',), edits=[
        (_B, "            self._active_cnt += 1\n\n            # the task was placed", "            # the task was placed"),
        (_B, "            slots, partition = self.schedule_task(task)\n", "            self._active_cnt += 1\n            slots, partition = self.schedule_task(task)\n")]),
    dict(name='R03.3 pre-placed task not counted', rules=('R03.3',), edits=[
        (_B, "                        continue\n                    self._active_cnt += 1\n", "                        continue\n")]),
    dict(name='R03.3 pre-placed task counted only when the marking failed', rules=('R03.3',), edits=[
        (_B, "                    try:\n                        self._change_slot_states(task['slots'], rpc.BUSY)\n                    except Exception as e:\n                        self._fail_task(task, e,\n                                        '\\n'.join(ru.get_exception_trace()))\n                        continue\n                    self._active_cnt += 1\n", "                    try:\n                        self._change_slot_states(task['slots'], rpc.BUSY)\n                    except Exception as e:\n                        self._active_cnt += 1\n                        self._fail_task(task, e,\n                                        '\\n'.join(ru.get_exception_trace()))\n                        continue\n")]),
    dict(name='R03.3 release decrements twice', rules=('R03.3',), edits=[
        (_B, "            to_release.append(task)\n            self._active_cnt -= 1\n", "            to_release.append(task)\n            self._active_cnt -= 1\n            self._active_cnt -= 1\n")]),
    dict(name='R03.3 decrement only for tasks with slots', rules=('R03.3',), edits=[
        (_B, "            to_release.append(task)\n            self._active_cnt -= 1\n", "            to_release.append(task)\n            if task.get('slots'):\n                self._active_cnt -= 1\n")]),
    dict(name='R03.3 count reset when the wait pool runs', rules=('R03.3',), edits=[
        (_B, "        active    = False  # nothing happeend yet\n", "        active    = False  # nothing happeend yet\n        self._active_cnt = 0\n")]),
    dict(name='R03.3 release loop skips every other task', rules=('R03.3',), edits=[
        (_B, "        for task in to_release:\n", "        for task in to_release[::2]:\n")]),
    dict(name='R03.3 queued tasks not released when bulk is small', rules=('R03.3',), edits=[
        (_B, "        if not to_release:\n            if not to_unschedule:", "        if len(to_release) < 2:\n            if not to_unschedule:")]),
    dict(name='R04.4 release not reported', rules=('R04.4',), edits=[
        (_B, "        # we have new resources, and were active\n        return True, True", "        # we have new resources, and were active\n        return False, True")]),
    dict(name='R03.4b occupancy written by unschedule_task directly', rules=('R03.4b',), edits=[
        (_C, "        for task in ru.as_list(tasks):\n            self._change_slot_states(task['slots'], rpc.FREE)", "        for task in ru.as_list(tasks):\n            self._change_slot_states(task['slots'], rpc.FREE)\n            for node in self.nodes:\n                node['lfs'] += 0")]),
    dict(name='R03.5 unschedule messages filtered', rules=('R03.5',), edits=[
        (_B, "        self._queue_unsched.put(msg)\n", "        if msg:\n            self._queue_unsched.put(msg)\n")]),
    dict(name='R03.5 received bulk dropped when large', rules=('R03.5',), edits=[
        (_B, "                to_unschedule += ru.as_list(tasks)\n", "                if len(to_unschedule) < 512:\n                    to_unschedule += ru.as_list(tasks)\n")]),
    dict(name='R03.6 partial result not rolled back', rules=('R03.6',), edits=[
        (_N, "            for slot in slots:\n                node = self.nodes[slot.node_index]\n                node.deallocate_slot(slot)\n            self.__last_failed_rr__ = rr", "            self.__last_failed_rr__ = rr")]),
    dict(name='R03.6 release_slots skips the last slot', rules=('R03.6',), edits=[
        (_N, "        for slot in slots:\n\n            node = self.nodes[slot.node_index]\n            node.deallocate_slot(slot)\n\n        if self.__last_failed_rr__:", "        for slot in slots[:-1]:\n\n            node = self.nodes[slot.node_index]\n            node.deallocate_slot(slot)\n\n        if self.__last_failed_rr__:")]),
    dict(name='R03.7 lfs/mem validated after the cores are marked (seed C03-d)', rules=('R03.7',), edits=[
        (_B, "                if new_state == rpc.BUSY:\n                    node['lfs'] -= slot['lfs']\n", "                if new_state == rpc.BUSY:\n                    if slot['lfs'] > node['lfs']:\n                        raise RuntimeError('insufficient lfs on %s'\n                                          % node['name'])\n                    node['lfs'] -= slot['lfs']\n"),
        (_B, "                if new_state == rpc.BUSY:\n                    node['mem'] -= slot['mem']\n", "                if new_state == rpc.BUSY:\n                    if slot['mem'] > node['mem']:\n                        raise RuntimeError('insufficient mem on %s'\n                                          % node['name'])\n                    node['mem'] -= slot['mem']\n")]),
    dict(name='R03.7 sanity assert after the mem debit', rules=('R03.7',), edits=[
        (_J, "                    node['mem'] -= slot['mem']\n", "                    node['mem'] -= slot['mem']\n                    assert node['mem'] >= 0, 'mem overbooked'\n")]),
    dict(name='R03.7 double booking refused inside the core loop', rules=('R03.7',), edits=[
        (_B, "            for core in slot['cores']:\n                node['cores'][core['index']] = new_state\n", "            for core in slot['cores']:\n                if new_state == rpc.BUSY and \\\n                        node['cores'][core['index']] == rpc.BUSY:\n                    raise RuntimeError('core in use')\n                node['cores'][core['index']] = new_state\n")]),
    dict(name='R03.7 capacity check in a helper called after the gpus are marked', rules=('R03.7',), edits=[
        (_B, "    def slot_status(self, msg=None, uid=None):\n", "    def _check_capacity(self, node, slot, new_state):\n        if new_state == rpc.BUSY:\n            if slot['lfs'] > node['lfs'] or slot['mem'] > node['mem']:\n                raise ValueError('node %s overbooked' % node['name'])\n\n    def slot_status(self, msg=None, uid=None):\n"),
        (_B, "                node['gpus'][gpu['index']] = new_state\n", "                node['gpus'][gpu['index']] = new_state\n\n            self._check_capacity(node, slot, new_state)\n")]),
    dict(name='R03.7 release refuses a negative lfs credit after freeing the cores', rules=('R03.7',), edits=[
        (_J, "                else:\n                    node['lfs'] += slot['lfs']\n", "                else:\n                    if slot['lfs'] < 0:\n                        raise ValueError('negative lfs')\n                    node['lfs'] += slot['lfs']\n")]),
    dict(name='R03.7 writer helper raises between its writes', rules=('R03.7',), edits=[
        (_B, "    def slot_status(self, msg=None, uid=None):\n", "    def _apply_slot(self, node, slot, new_state):\n        for core in slot['cores']:\n            node['cores'][core['index']] = new_state\n        if new_state == rpc.BUSY and slot['lfs'] > node['lfs']:\n            raise RuntimeError('insufficient lfs')\n        for gpu in slot['gpus']:\n            node['gpus'][gpu['index']] = new_state\n\n        if slot['lfs']:\n            if new_state == rpc.BUSY:\n                node['lfs'] -= slot['lfs']\n            else:\n                node['lfs'] += slot['lfs']\n\n        if slot['mem']:\n            if new_state == rpc.BUSY:\n                node['mem'] -= slot['mem']\n            else:\n                node['mem'] += slot['mem']\n\n    def slot_status(self, msg=None, uid=None):\n"),
        (_B, "            # iterate over cores/gpus in the slot, and update state\n            for core in slot['cores']:\n                node['cores'][core['index']] = new_state\n\n            for gpu in slot['gpus']:\n                node['gpus'][gpu['index']] = new_state\n\n            if slot['lfs']:\n                if new_state == rpc.BUSY:\n                    node['lfs'] -= slot['lfs']\n                else:\n                    node['lfs'] += slot['lfs']\n\n            if slot['mem']:\n                if new_state == rpc.BUSY:\n                    node['mem'] -= slot['mem']\n                else:\n                    node['mem'] += slot['mem']\n", "            self._apply_slot(node, slot, new_state)\n")]),
    dict(name='R03.7 gpu check after the cores, handler only logs and re-raises', rules=('R03.7',), edits=[
        (_J, "            for gpu_map in slot['gpus']:\n                for gpu in gpu_map:\n                    node['gpus'][gpu] = new_state\n", "            try:\n                for gpu_map in slot['gpus']:\n                    for gpu in gpu_map:\n                        if gpu >= len(node['gpus']):\n                            raise ValueError('no such gpu')\n                        node['gpus'][gpu] = new_state\n            except ValueError:\n                self._log.error('invalid slot %s', slot)\n                raise\n")]),
    dict(name='R03.1 sign trick: same sign in both directions', rules=('R03.1',), edits=[
        (_B, "        # for node_name, node_index, cores, gpus in slots['ranks']:\n        for slot in slots:\n", "        if new_state == rpc.BUSY: sign = -1\n        else                    : sign = -1\n\n        # for node_name, node_index, cores, gpus in slots['ranks']:\n        for slot in slots:\n"),
        (_B, "            if slot['lfs']:\n                if new_state == rpc.BUSY:\n                    node['lfs'] -= slot['lfs']\n                else:\n                    node['lfs'] += slot['lfs']\n", "            if slot['lfs']: node['lfs'] += sign * slot['lfs']\n"),
        (_B, "            if slot['mem']:\n                if new_state == rpc.BUSY:\n                    node['mem'] -= slot['mem']\n                else:\n                    node['mem'] += slot['mem']\n", "            if slot['mem']: node['mem'] += sign * slot['mem']\n")]),
    dict(name='R03.1 sign trick: sign inverted (+1 under BUSY)', rules=('R03.1',), edits=[
        (_J, "        # for node_name, node_index, cores, gpus in slots['ranks']:\n        for slot in slots:\n", "        sign = 1 if new_state == rpc.BUSY else -1\n\n        # for node_name, node_index, cores, gpus in slots['ranks']:\n        for slot in slots:\n"),
        (_J, "            if slot['lfs']:\n                if new_state == rpc.BUSY:\n                    node['lfs'] -= slot['lfs']\n                else:\n                    node['lfs'] += slot['lfs']\n", "            if slot['lfs']: node['lfs'] += sign * slot['lfs']\n"),
        (_J, "            if slot['mem']:\n                if new_state == rpc.BUSY:\n                    node['mem'] -= slot['mem']\n                else:\n                    node['mem'] += slot['mem']\n", "            if slot['mem']: node['mem'] += sign * slot['mem']\n")]),
    dict(name='R03.1 sign trick: applied to lfs only, mem always added', rules=('R03.1',), edits=[
        (_B, "        # for node_name, node_index, cores, gpus in slots['ranks']:\n        for slot in slots:\n", "        if new_state == rpc.BUSY: sign = -1\n        else                    : sign = +1\n\n        # for node_name, node_index, cores, gpus in slots['ranks']:\n        for slot in slots:\n"),
        (_B, "            if slot['lfs']:\n                if new_state == rpc.BUSY:\n                    node['lfs'] -= slot['lfs']\n                else:\n                    node['lfs'] += slot['lfs']\n", "            if slot['lfs']: node['lfs'] += sign * slot['lfs']\n"),
        (_B, "            if slot['mem']:\n                if new_state == rpc.BUSY:\n                    node['mem'] -= slot['mem']\n                else:\n                    node['mem'] += slot['mem']\n", "            if slot['mem']: node['mem'] += slot['mem']\n")]),
    dict(name='R03.1 sign trick: default +1 never overridden for BUSY', rules=('R03.1',), edits=[
        (_J, "        # for node_name, node_index, cores, gpus in slots['ranks']:\n        for slot in slots:\n", "        sign = 1\n        if new_state == rpc.FREE:\n            sign = 1\n\n        # for node_name, node_index, cores, gpus in slots['ranks']:\n        for slot in slots:\n"),
        (_J, "            if slot['lfs']:\n                if new_state == rpc.BUSY:\n                    node['lfs'] -= slot['lfs']\n                else:\n                    node['lfs'] += slot['lfs']\n", "            if slot['lfs']: node['lfs'] += sign * slot['lfs']\n"),
        (_J, "            if slot['mem']:\n                if new_state == rpc.BUSY:\n                    node['mem'] -= slot['mem']\n                else:\n                    node['mem'] += slot['mem']\n", "            if slot['mem']: node['mem'] += sign * slot['mem']\n")]),
    dict(name='R03.1 operator form: add in both directions', rules=('R03.1',), edits=[
        (_B, "        # for node_name, node_index, cores, gpus in slots['ranks']:\n        for slot in slots:\n", "        import operator\n        op = operator.add if new_state == rpc.BUSY else operator.add\n\n        # for node_name, node_index, cores, gpus in slots['ranks']:\n        for slot in slots:\n"),
        (_B, "            if slot['lfs']:\n                if new_state == rpc.BUSY:\n                    node['lfs'] -= slot['lfs']\n                else:\n                    node['lfs'] += slot['lfs']\n", "            if slot['lfs']: node['lfs'] = op(node['lfs'], slot['lfs'])\n"),
        (_B, "            if slot['mem']:\n                if new_state == rpc.BUSY:\n                    node['mem'] -= slot['mem']\n                else:\n                    node['mem'] += slot['mem']\n", "            if slot['mem']: node['mem'] = op(node['mem'], slot['mem'])\n")]),
    dict(name='R03.1 signed amount: debit scaled by 2', rules=('R03.1',), edits=[
        (_B, "        # for node_name, node_index, cores, gpus in slots['ranks']:\n        for slot in slots:\n", "        if new_state == rpc.BUSY: sign = -2\n        else                    : sign = +1\n\n        # for node_name, node_index, cores, gpus in slots['ranks']:\n        for slot in slots:\n"),
        (_B, "            if slot['lfs']:\n                if new_state == rpc.BUSY:\n                    node['lfs'] -= slot['lfs']\n                else:\n                    node['lfs'] += slot['lfs']\n", "            if slot['lfs']: node['lfs'] += sign * slot['lfs']\n"),
        (_B, "            if slot['mem']:\n                if new_state == rpc.BUSY:\n                    node['mem'] -= slot['mem']\n                else:\n                    node['mem'] += slot['mem']\n", "            if slot['mem']: node['mem'] += sign * slot['mem']\n")]),
    dict(name='R03.8 cancel re-polls after the removal and leaves the task to the watcher (seed C03-f)', rules=('R03.8',), edits=[
        (_P, "        self._prof.prof('task_run_cancel_start', uid=tid)\n", "        self._prof.prof('task_run_cancel_start', uid=tid)\n\n        if proc.poll() is not None:\n            self._log.debug('task %s completed before cancel', tid)\n            self._prof.prof('task_run_cancel_stop', uid=tid)\n            return\n")]),
    dict(name='R03.8 cancel publishes only when the process was reaped', rules=('R03.8',), edits=[
        (_P, "        self._prof.prof('unschedule_start', uid=tid)\n        self.publish(rpc.AGENT_UNSCHEDULE_PUBSUB, task)\n", "        self._prof.prof('unschedule_start', uid=tid)\n        if proc.returncode is not None:\n            self.publish(rpc.AGENT_UNSCHEDULE_PUBSUB, task)\n")]),
    dict(name='R03.8 watcher drops a removed task that already has an outcome', rules=('R03.8',), edits=[
        (_P, '                tasks_to_advance.append(task)\n', "                if task.get('target_state'):\n                    # somebody finalized it\n                    continue\n\n                tasks_to_advance.append(task)\n")]),
    dict(name='R03.8 bulk publication only for more than one task', rules=('R03.8',), edits=[
        (_P, '        self.publish(rpc.AGENT_UNSCHEDULE_PUBSUB, tasks_to_advance)\n', '        if len(tasks_to_advance) > 1:\n            self.publish(rpc.AGENT_UNSCHEDULE_PUBSUB, tasks_to_advance)\n')]),
    dict(name='R03.8 arbitration in a helper, cancel leaves after winning it', rules=('R03.8',), edits=[
        (_P, '    def cancel_task(self, task):\n', '    def _disown_task(self, tid):\n        with self._check_lock:\n            if tid not in self._tasks:\n                return False\n            self._tasks.pop(tid, None)\n            return True\n\n    def cancel_task(self, task):\n'),
        (_P, '        with self._check_lock:\n            if tid not in self._tasks:\n                return\n            try:\n                del self._tasks[tid]\n            except KeyError:\n                pass\n\n        # task is still running -- cancel it\n', '        won = self._disown_task(tid)\n        if not won:\n            return\n\n        # task is still running -- cancel it\n'),
        (_P, "        self._prof.prof('task_run_cancel_start', uid=tid)\n", "        self._prof.prof('task_run_cancel_start', uid=tid)\n\n        if proc.poll() is not None:\n            return\n")]),
    dict(name='R03.10 core scan counts from 0 over a slice that starts at the cursor (seed C03-h2)', rules=('R03.10',), edits=[
        (_C, "            for core_idx,core in enumerate(node['cores'][loop_core_idx:],\n                                                         loop_core_idx):\n",
             "            for core_idx,core in enumerate(node['cores'][loop_core_idx:]):\n")]),
    dict(name='R03.10 whole-GPU scan counts from 0 over the slice', rules=('R03.10',), edits=[
        (_C, "                for gpu_idx,gpu in enumerate(node['gpus'][loop_gpu_idx:],\n                                                          loop_gpu_idx):\n",
             "                for gpu_idx,gpu in enumerate(node['gpus'][loop_gpu_idx:]):\n")]),
    dict(name='R03.10 shared-GPU scan counts from the core cursor', rules=('R03.10',), edits=[
        (_C, "                for gpu_idx,gpu_occ in enumerate(node['gpus'][loop_gpu_idx:],\n                                                              loop_gpu_idx):\n",
             "                for gpu_idx,gpu_occ in enumerate(node['gpus'][loop_gpu_idx:],\n                                                              loop_core_idx):\n")]),
    dict(name='R03.10 core scan over the whole list but counted from the cursor', rules=('R03.10',), edits=[
        (_C, "            for core_idx,core in enumerate(node['cores'][loop_core_idx:],\n                                                         loop_core_idx):\n",
             "            for core_idx,core in enumerate(node['cores'], loop_core_idx):\n")]),
    dict(name='R03.10 jsrun: cursor advanced between the test and the record', rules=('R03.10',), edits=[
        (_J, "                if node['cores'][core_idx] == rpc.FREE:\n                    cores.append(core_idx)\n                core_idx += 1\n",
             "                is_free   = node['cores'][core_idx] == rpc.FREE\n                core_idx += 1\n                if is_free:\n                    cores.append(core_idx)\n")]),
    dict(name='R03.10 jsrun: gpu tested through the core cursor', rules=('R03.10',), edits=[
        (_J, "                if node['gpus'][gpu_idx] == rpc.FREE:", "                if node['gpus'][core_idx] == rpc.FREE:")]),
    dict(name='R03.10 find_slot: gpu entries take the index of core elements', rules=('R03.10',), edits=[
        (_N, "                for ro in self.gpus:", "                for ro in self.cores:")]),
    dict(name='R03.10 find_slot, shared pick helper: the gpus are picked from the core pool', rules=('R03.10', 'R03.S'),
         edits=_c02._fs_shared('self.cores, rr.n_gpus, rr.gpu_occupation')),
    dict(name='R03.6 release_slots looks the node up by index, with the polarity of the match flipped', rules=('R03.6',), edits=[
        (_N, "        for slot in slots:\n\n            node = self.nodes[slot.node_index]\n            node.deallocate_slot(slot)\n\n", "        for slot in slots:\n\n            for node in self.nodes:\n                if node.index == slot.node_index:\n                    continue\n                node.deallocate_slot(slot)\n                break\n\n")]),
    dict(name='R03.1 Node.allocate_slot: gpu bookings collected first, with a whole unit instead of the requested share', rules=('R03.1',), edits=[(_N, '            for ro in gpus:\n                g_idx = self._get_gpu_index(ro)\n                self.gpus[g_idx].occupation += ro.occupation\n', '            todo = [(self._get_gpu_index(ro), 1.0) for ro in gpus]\n            for g_idx, occ in todo:\n                self.gpus[g_idx].occupation += occ\n')]),
    dict(name='R03.7 lfs booked on every node visited by the lookup, before the match test; unknown node still raises', rules=('R03.7', 'R03.1'), edits=[(_B, "                if node['index'] == slot['node_index']:\n                    node_found = True\n                    break\n", "                if slot['lfs']:\n                    if new_state == rpc.BUSY:\n                        node['lfs'] -= slot['lfs']\n                    else:\n                        node['lfs'] += slot['lfs']\n                if node['index'] == slot['node_index']:\n                    node_found = True\n                    break\n"), (_B, "            if slot['lfs']:\n                if new_state == rpc.BUSY:\n                    node['lfs'] -= slot['lfs']\n                else:\n                    node['lfs'] += slot['lfs']\n\n", '')]),
    dict(name="R03.11 node taken at list position slot['node_index'] as a fast path, search only as fallback (seed C03-i6)", rules=('R03.11',), edits=[
        (_B, "            for node in self.nodes:\n                if node['index'] == slot['node_index']:\n                    node_found = True\n                    break\n", "            if slot['node_index'] < len(self.nodes):\n                node = self.nodes[slot['node_index']]\n                node_found = True\n            else:\n                for node in self.nodes:\n                    if node['index'] == slot['node_index']:\n                        node_found = True\n                        break\n")]),
    dict(name="R03.11 jsrun: the search replaced by self.nodes[slot['node_index']]", rules=('R03.11',), edits=[
        (_J, "            node = None\n            node_found = False\n            for node in self.nodes:\n                if node['index'] == slot['node_index']:\n                    node_found = True\n                    break\n\n            if not node_found:\n                raise RuntimeError('inconsistent node information')\n", "            node = self.nodes[slot['node_index']]\n")]),
    dict(name='R03.11 search compares the list position (enumerate) with the node_index', rules=('R03.11',), edits=[
        (_B, "            for node in self.nodes:\n                if node['index'] == slot['node_index']:\n                    node_found = True\n                    break\n", "            for pos, node in enumerate(self.nodes):\n                if pos == slot['node_index']:\n                    node_found = True\n                    break\n")]),
    dict(name='R03.11 cores written through self.nodes[<node_index>] in place', rules=('R03.11',), edits=[
        (_B, "                node['cores'][core['index']] = new_state\n", "                self.nodes[slot['node_index']]['cores'][core['index']] = new_state\n")]),
    dict(name='R03.11 jsrun: hoisted node_index used as position behind a bounds check', rules=('R03.11',), edits=[
        (_J, "            node = None\n            node_found = False\n            for node in self.nodes:\n                if node['index'] == slot['node_index']:\n                    node_found = True\n                    break\n\n            if not node_found:\n                raise RuntimeError('inconsistent node information')\n", "            idx = slot['node_index']\n            if idx >= len(self.nodes):\n                raise RuntimeError('inconsistent node information')\n            node = self.nodes[idx]\n")]),
    dict(name='R03.11 lookup helper returns the node at position node_index', rules=('R03.11',), edits=[
        (_B, "            node = None\n            node_found = False\n            for node in self.nodes:\n                if node['index'] == slot['node_index']:\n                    node_found = True\n                    break\n\n            if not node_found:\n                raise RuntimeError('inconsistent node information')\n", "            node = self._find_node(slot['node_index'])\n"),
        (_B, '    def slot_status(self, msg=None, uid=None):\n', "    def _find_node(self, node_index):\n        if node_index >= len(self.nodes):\n            raise RuntimeError('inconsistent node information')\n        return self.nodes[node_index]\n\n    def slot_status(self, msg=None, uid=None):\n")]),
    dict(name='R03.11 guessed position verified with the wrong polarity', rules=('R03.11',), edits=[
        (_B, "            for node in self.nodes:\n                if node['index'] == slot['node_index']:\n                    node_found = True\n                    break\n", "            if slot['node_index'] < len(self.nodes):\n                node = self.nodes[slot['node_index']]\n                if node['index'] != slot['node_index']:\n                    node_found = True\n            if not node_found:\n                for node in self.nodes:\n                    if node['index'] == slot['node_index']:\n                        node_found = True\n                        break\n")]),
    dict(name='R03.11 lookup helper is given the slot and indexes by position (IndexError converted)', rules=('R03.11',), edits=[
        (_B, "            node = None\n            node_found = False\n            for node in self.nodes:\n                if node['index'] == slot['node_index']:\n                    node_found = True\n                    break\n\n            if not node_found:\n                raise RuntimeError('inconsistent node information')\n", '            node = self._node_of(slot)\n'),
        (_B, '    def slot_status(self, msg=None, uid=None):\n', "    def _node_of(self, slot):\n        idx = slot['node_index']\n        try:\n            return self.nodes[idx]\n        except IndexError:\n            raise RuntimeError('inconsistent node information')\n\n    def slot_status(self, msg=None, uid=None):\n")]),
    dict(name='R03.12 mem credited only for slots with lfs (seed C03-k2)', rules=('R03.12',), edits=[
        (_B, "            if slot['lfs']:\n                if new_state == rpc.BUSY:\n                    node['lfs'] -= slot['lfs']\n                else:\n                    node['lfs'] += slot['lfs']\n\n            if slot['mem']:\n                if new_state == rpc.BUSY:\n                    node['mem'] -= slot['mem']\n                else:\n                    node['mem'] += slot['mem']\n",
             "            if new_state == rpc.BUSY:\n                if slot['lfs']: node['lfs'] -= slot['lfs']\n                if slot['mem']: node['mem'] -= slot['mem']\n\n            elif slot['lfs']:\n                node['lfs'] += slot['lfs']\n                if slot['mem']:\n                    node['mem'] += slot['mem']\n")]),
    dict(name='R03.12 lfs credit skipped for slots with gpus', rules=('R03.12',), edits=[
        (_B, "                else:\n                    node['lfs'] += slot['lfs']\n", "                elif not slot['gpus']:\n                    node['lfs'] += slot['lfs']\n")]),
]

SILENT = [
    dict(name='lfs/mem grouped by direction, each under the test of its own amount', edits=[
        (_B, "            if slot['lfs']:\n                if new_state == rpc.BUSY:\n                    node['lfs'] -= slot['lfs']\n                else:\n                    node['lfs'] += slot['lfs']\n\n            if slot['mem']:\n                if new_state == rpc.BUSY:\n                    node['mem'] -= slot['mem']\n                else:\n                    node['mem'] += slot['mem']\n",
             "            if new_state == rpc.BUSY:\n                if slot['lfs']: node['lfs'] -= slot['lfs']\n                if slot['mem']: node['mem'] -= slot['mem']\n\n            else:\n                if slot['lfs'] > 0:\n                    node['lfs'] += slot['lfs']\n                node['mem'] += slot['mem']\n")]),
    dict(name='pre-placed task counted after the start hand-on (same iteration)', edits=[
        (_B, '                    self._active_cnt += 1\n\n                    self.advance(task, rps.AGENT_EXECUTING_PENDING,\n                                 publish=True, push=True, fwd=True)\n                    continue\n', '\n                    self.advance(task, rps.AGENT_EXECUTING_PENDING,\n                                 publish=True, push=True, fwd=True)\n                    self._active_cnt += 1\n                    continue\n')]),
    dict(name='pre-placed task counted inside the try, the handler takes the count back', edits=[
        (_B, "                    try:\n                        self._change_slot_states(task['slots'], rpc.BUSY)\n                    except Exception as e:\n                        self._fail_task(task, e,\n                                        '\\n'.join(ru.get_exception_trace()))\n                        continue\n                    self._active_cnt += 1\n", "                    try:\n                        self._active_cnt += 1\n                        self._change_slot_states(task['slots'], rpc.BUSY)\n                    except Exception as e:\n                        self._active_cnt -= 1\n                        self._fail_task(task, e,\n                                        '\\n'.join(ru.get_exception_trace()))\n                        continue\n")]),
    dict(name='symmetric update written with FREE test', edits=[
        (_B, "                if new_state == rpc.BUSY:\n                    node['lfs'] -= slot['lfs']\n                else:\n                    node['lfs'] += slot['lfs']\n",
             "                if new_state == rpc.FREE:\n                    node['lfs'] += slot['lfs']\n                else:\n                    node['lfs'] -= slot['lfs']\n")]),
    dict(name='symmetric update with != test', edits=[
        (_J, "                if new_state == rpc.BUSY:\n                    node['mem'] -= slot['mem']\n                else:\n                    node['mem'] += slot['mem']\n",
             "                if new_state != rpc.BUSY:\n                    node['mem'] += slot['mem']\n                else:\n                    node['mem'] -= slot['mem']\n")]),
    dict(name='decrement before queueing', edits=[
        (_B, "            to_release.append(task)\n            self._active_cnt -= 1\n", "            self._active_cnt -= 1\n            to_release.append(task)\n")]),
    dict(name='unschedule_task with explicit list', edits=[
        (_C, "        for task in ru.as_list(tasks):\n            self._change_slot_states(task['slots'], rpc.FREE)", "        tasks = ru.as_list(tasks)\n        for t in tasks:\n            self._change_slot_states(t['slots'], rpc.FREE)")]),
    dict(name='count after marking in _try_allocation', edits=[
        (_B, "            self._active_cnt += 1\n\n            # the task was placed", "            # the task was placed"),
        (_B, "            task['partition'] = partition\n\n            self.slot_status('after scheduled task', task['uid'])", "            task['partition'] = partition\n            self._active_cnt += 1\n\n            self.slot_status('after scheduled task', task['uid'])")]),
    dict(name='Node credit as nested if', edits=[
        (_N, "            if self.lfs is not None: self.lfs += slot.lfs\n", "            if self.lfs is not None:\n                self.lfs += slot.lfs\n")]),
    dict(name='rollback via release helper variable', edits=[
        (_N, "            for slot in slots:\n                node = self.nodes[slot.node_index]\n                node.deallocate_slot(slot)\n            self.__last_failed_rr__ = rr", "            for s in slots:\n                self.nodes[s.node_index].deallocate_slot(s)\n            self.__last_failed_rr__ = rr")]),
    dict(name='placement result tested into a local first', edits=[
        (_B, "                    if self._try_allocation(task):\n                        # task got scheduled", "                    placed = self._try_allocation(task)\n                    if placed:\n                        # task got scheduled")]),
    dict(name='node lookup as for-else: raise before the writes of the slot', edits=[
        (_B, "            node = None\n            node_found = False\n            for node in self.nodes:\n                if node['index'] == slot['node_index']:\n                    node_found = True\n                    break\n\n            if not node_found:\n                raise RuntimeError('inconsistent node information')\n", "            for node in self.nodes:\n                if node['index'] == slot['node_index']:\n                    break\n            else:\n                raise RuntimeError('inconsistent node information')\n")]),
    dict(name='all slots validated in a first pass, applied in a second', edits=[
        (_J, "            node = None\n            node_found = False\n            for node in self.nodes:\n                if node['index'] == slot['node_index']:\n                    node_found = True\n                    break\n\n            if not node_found:\n                raise RuntimeError('inconsistent node information')\n", "            node = None\n            for node in self.nodes:\n                if node['index'] == slot['node_index']:\n                    break\n"),
        (_J, "        # for node_name, node_index, cores, gpus in slots['ranks']:\n        for slot in slots:\n", "        for slot in slots:\n            if not [n for n in self.nodes\n                    if n['index'] == slot['node_index']]:\n                raise RuntimeError('inconsistent node information')\n\n        for slot in slots:\n")]),
    dict(name='lfs/mem booked before cores/gpus, mem guard as early continue', edits=[
        (_J, "            # iterate over cores/gpus in the slot, and update state\n            for core_map in slot['cores']:\n                for core in core_map:\n                    node['cores'][core] = new_state\n\n            for gpu_map in slot['gpus']:\n                for gpu in gpu_map:\n                    node['gpus'][gpu] = new_state\n\n", ""),
        (_J, "            if slot['mem']:\n                if new_state == rpc.BUSY:\n                    node['mem'] -= slot['mem']\n                else:\n                    node['mem'] += slot['mem']\n", "            for gpu_map in slot['gpus']:\n                for gpu in gpu_map:\n                    node['gpus'][gpu] = new_state\n\n            for core_map in slot['cores']:\n                for core in core_map:\n                    node['cores'][core] = new_state\n\n            if not slot['mem']:\n                continue\n            if new_state == rpc.BUSY:\n                node['mem'] -= slot['mem']\n            else:\n                node['mem'] += slot['mem']\n")]),
    dict(name='renamed locals, gpus marked before cores', edits=[
        (_B, "            node = None\n            node_found = False\n            for node in self.nodes:\n                if node['index'] == slot['node_index']:\n                    node_found = True\n                    break\n\n            if not node_found:\n                raise RuntimeError('inconsistent node information')\n", "            n = None\n            known = False\n            for n in self.nodes:\n                if n['index'] == slot['node_index']:\n                    known = True\n                    break\n\n            if known is False:\n                raise RuntimeError('inconsistent node information')\n            node = n\n"),
        (_B, "            for core in slot['cores']:\n                node['cores'][core['index']] = new_state\n\n            for gpu in slot['gpus']:\n                node['gpus'][gpu['index']] = new_state\n", "            for g in slot['gpus']:\n                node['gpus'][g['index']] = new_state\n\n            for c in slot['cores']:\n                node['cores'][c['index']] = new_state\n")]),
    dict(name='writes of one slot extracted into a helper called after the lookup', edits=[
        (_B, "    def slot_status(self, msg=None, uid=None):\n", "    def _apply_slot(self, node, slot, new_state):\n        for core in slot['cores']:\n            node['cores'][core['index']] = new_state\n\n        for gpu in slot['gpus']:\n            node['gpus'][gpu['index']] = new_state\n\n        if slot['lfs']:\n            if new_state == rpc.BUSY:\n                node['lfs'] -= slot['lfs']\n            else:\n                node['lfs'] += slot['lfs']\n\n        if slot['mem']:\n            if new_state == rpc.BUSY:\n                node['mem'] -= slot['mem']\n            else:\n                node['mem'] += slot['mem']\n\n    def slot_status(self, msg=None, uid=None):\n"),
        (_B, "            # iterate over cores/gpus in the slot, and update state\n            for core in slot['cores']:\n                node['cores'][core['index']] = new_state\n\n            for gpu in slot['gpus']:\n                node['gpus'][gpu['index']] = new_state\n\n            if slot['lfs']:\n                if new_state == rpc.BUSY:\n                    node['lfs'] -= slot['lfs']\n                else:\n                    node['lfs'] += slot['lfs']\n\n            if slot['mem']:\n                if new_state == rpc.BUSY:\n                    node['mem'] -= slot['mem']\n                else:\n                    node['mem'] += slot['mem']\n", "            self._apply_slot(node, slot, new_state)\n")]),
    dict(name='slots taken from a work list in a while loop', edits=[
        (_B, '        for slot in slots:\n\n            # Find the entry in the slots list\n', "        todo = list(slots)\n        while todo:\n            slot = todo.pop(0)\n")]),
    dict(name='signed update: sign -1 under BUSY else +1, += sign * amount', edits=[
        (_B, "        # for node_name, node_index, cores, gpus in slots['ranks']:\n        for slot in slots:\n", "        if new_state == rpc.BUSY: sign = -1\n        else                    : sign = +1\n\n        # for node_name, node_index, cores, gpus in slots['ranks']:\n        for slot in slots:\n"),
        (_B, "            if slot['lfs']:\n                if new_state == rpc.BUSY:\n                    node['lfs'] -= slot['lfs']\n                else:\n                    node['lfs'] += slot['lfs']\n", "            if slot['lfs']: node['lfs'] += sign * slot['lfs']\n"),
        (_B, "            if slot['mem']:\n                if new_state == rpc.BUSY:\n                    node['mem'] -= slot['mem']\n                else:\n                    node['mem'] += slot['mem']\n", "            if slot['mem']: node['mem'] += sign * slot['mem']\n")]),
    dict(name='signed update: sign defaults to +1, overridden under BUSY', edits=[
        (_J, "        # for node_name, node_index, cores, gpus in slots['ranks']:\n        for slot in slots:\n", "        sign = 1\n        if new_state == rpc.BUSY:\n            sign = -1\n\n        # for node_name, node_index, cores, gpus in slots['ranks']:\n        for slot in slots:\n"),
        (_J, "            if slot['lfs']:\n                if new_state == rpc.BUSY:\n                    node['lfs'] -= slot['lfs']\n                else:\n                    node['lfs'] += slot['lfs']\n", "            if slot['lfs']: node['lfs'] += sign * slot['lfs']\n"),
        (_J, "            if slot['mem']:\n                if new_state == rpc.BUSY:\n                    node['mem'] -= slot['mem']\n                else:\n                    node['mem'] += slot['mem']\n", "            if slot['mem']: node['mem'] += sign * slot['mem']\n")]),
    dict(name='signed update: -= with sign +1 under BUSY, amount first', edits=[
        (_B, "        # for node_name, node_index, cores, gpus in slots['ranks']:\n        for slot in slots:\n", "        taken = 1 if new_state == rpc.BUSY else -1\n\n        # for node_name, node_index, cores, gpus in slots['ranks']:\n        for slot in slots:\n"),
        (_B, "            if slot['lfs']:\n                if new_state == rpc.BUSY:\n                    node['lfs'] -= slot['lfs']\n                else:\n                    node['lfs'] += slot['lfs']\n", "            if slot['lfs']: node['lfs'] -= slot['lfs'] * taken\n"),
        (_B, "            if slot['mem']:\n                if new_state == rpc.BUSY:\n                    node['mem'] -= slot['mem']\n                else:\n                    node['mem'] += slot['mem']\n", "            if slot['mem']: node['mem'] -= slot['mem'] * taken\n")]),
    dict(name='signed amount: delta = -x if BUSY else x; += delta', edits=[
        (_J, "            if slot['lfs']:\n                if new_state == rpc.BUSY:\n                    node['lfs'] -= slot['lfs']\n                else:\n                    node['lfs'] += slot['lfs']\n", "            if slot['lfs']:\n                delta = -slot['lfs'] if new_state == rpc.BUSY else slot['lfs']\n                node['lfs'] += delta\n"),
        (_J, "            if slot['mem']:\n                if new_state == rpc.BUSY:\n                    node['mem'] -= slot['mem']\n                else:\n                    node['mem'] += slot['mem']\n", "            if slot['mem']:\n                d_mem = slot['mem']\n                if new_state == rpc.BUSY:\n                    d_mem = -d_mem\n                node['mem'] += d_mem\n")]),
    dict(name='operator form: op = operator.sub if BUSY else operator.add', edits=[
        (_B, "        # for node_name, node_index, cores, gpus in slots['ranks']:\n        for slot in slots:\n", "        import operator\n        op = operator.sub if new_state == rpc.BUSY else operator.add\n\n        # for node_name, node_index, cores, gpus in slots['ranks']:\n        for slot in slots:\n"),
        (_B, "            if slot['lfs']:\n                if new_state == rpc.BUSY:\n                    node['lfs'] -= slot['lfs']\n                else:\n                    node['lfs'] += slot['lfs']\n", "            if slot['lfs']: node['lfs'] = op(node['lfs'], slot['lfs'])\n"),
        (_B, "            if slot['mem']:\n                if new_state == rpc.BUSY:\n                    node['mem'] -= slot['mem']\n                else:\n                    node['mem'] += slot['mem']\n", "            if slot['mem']: node['mem'] = op(node['mem'], slot['mem'])\n")]),
    dict(name='sign looked up in a literal table keyed by the state', edits=[
        (_B, "        # for node_name, node_index, cores, gpus in slots['ranks']:\n        for slot in slots:\n", "        sign = {rpc.BUSY: -1, rpc.FREE: 1}[new_state]\n\n        # for node_name, node_index, cores, gpus in slots['ranks']:\n        for slot in slots:\n"),
        (_B, "            if slot['lfs']:\n                if new_state == rpc.BUSY:\n                    node['lfs'] -= slot['lfs']\n                else:\n                    node['lfs'] += slot['lfs']\n", "            if slot['lfs']: node['lfs'] += sign * slot['lfs']\n"),
        (_B, "            if slot['mem']:\n                if new_state == rpc.BUSY:\n                    node['mem'] -= slot['mem']\n                else:\n                    node['mem'] += slot['mem']\n", "            if slot['mem']: node['mem'] += sign * slot['mem']\n")]),
    dict(name='cancel: publication before the cancel_stop profile line', edits=[
        (_P, "        self._prof.prof('task_run_cancel_stop', uid=tid)\n        self._prof.prof('unschedule_start', uid=tid)\n        self.publish(rpc.AGENT_UNSCHEDULE_PUBSUB, task)\n", "        self._prof.prof('unschedule_start', uid=tid)\n        self.publish(rpc.AGENT_UNSCHEDULE_PUBSUB, task)\n        self._prof.prof('task_run_cancel_stop', uid=tid)\n")]),
    dict(name='cancel: membership test in positive form, removal by pop', edits=[
        (_P, '            if tid not in self._tasks:\n                return\n            try:\n                del self._tasks[tid]\n            except KeyError:\n                pass\n\n        # task is still running -- cancel it', '            if tid in self._tasks:\n                self._tasks.pop(tid, None)\n            else:\n                return\n\n        # task is still running -- cancel it')]),
    dict(name='watcher: finish list renamed', edits=[
        (_P, '        tasks_to_advance = list()\n\n        # `to_watch.remove()`', '        finished = list()\n\n        # `to_watch.remove()`'),
        (_P, '                tasks_to_advance.append(task)\n', '                finished.append(task)\n'),
        (_P, '        self.publish(rpc.AGENT_UNSCHEDULE_PUBSUB, tasks_to_advance)\n\n        if tasks_to_advance:\n            self.advance(tasks_to_advance, rps.AGENT_STAGING_OUTPUT_PENDING,', '        self.publish(rpc.AGENT_UNSCHEDULE_PUBSUB, finished)\n\n        if finished:\n            self.advance(finished, rps.AGENT_STAGING_OUTPUT_PENDING,')]),
    dict(name='watcher: bulk publication only when the list is not empty', edits=[
        (_P, '        self.publish(rpc.AGENT_UNSCHEDULE_PUBSUB, tasks_to_advance)\n\n        if tasks_to_advance:\n', '        if tasks_to_advance:\n            self.publish(rpc.AGENT_UNSCHEDULE_PUBSUB, tasks_to_advance)\n')]),
    dict(name='cancel: arbitration extracted into a helper', edits=[
        (_P, '    def cancel_task(self, task):\n', '    def _disown_task(self, tid):\n        with self._check_lock:\n            if tid not in self._tasks:\n                return False\n            self._tasks.pop(tid, None)\n            return True\n\n    def cancel_task(self, task):\n'),
        (_P, '        with self._check_lock:\n            if tid not in self._tasks:\n                return\n            try:\n                del self._tasks[tid]\n            except KeyError:\n                pass\n\n        # task is still running -- cancel it\n', '        if not self._disown_task(tid):\n            return\n\n        # task is still running -- cancel it\n')]),
    dict(name='core scan: enumerate start as keyword', edits=[
        (_C, "            for core_idx,core in enumerate(node['cores'][loop_core_idx:],\n                                                         loop_core_idx):\n",
             "            for core_idx,core in enumerate(node['cores'][loop_core_idx:],\n                                           start=loop_core_idx):\n")]),
    dict(name='core scan: the slice hoisted into a local', edits=[
        (_C, "            for core_idx,core in enumerate(node['cores'][loop_core_idx:],\n                                                         loop_core_idx):\n",
             "            rest = node['cores'][loop_core_idx:]\n            for core_idx,core in enumerate(rest, loop_core_idx):\n")]),
    dict(name='core scan: whole list enumerated, cores before the cursor skipped', edits=[
        (_C, "            for core_idx,core in enumerate(node['cores'][loop_core_idx:],\n                                                         loop_core_idx):\n                if core == rpc.FREE:\n",
             "            for core_idx,core in enumerate(node['cores']):\n                if core_idx < loop_core_idx:\n                    continue\n                if core == rpc.FREE:\n")]),
    dict(name='gpu scan: cursor copied into a local used for slice and count', edits=[
        (_C, "                for gpu_idx,gpu in enumerate(node['gpus'][loop_gpu_idx:],\n                                                          loop_gpu_idx):\n",
             "                first = loop_gpu_idx\n                for gpu_idx,gpu in enumerate(node['gpus'][first:], first):\n")]),
    dict(name='jsrun: tested element hoisted into a local', edits=[
        (_J, "                if node['cores'][core_idx] == rpc.FREE:\n                    cores.append(core_idx)\n",
             "                state = node['cores'][core_idx]\n                if state == rpc.FREE:\n                    cores.append(core_idx)\n")]),
    dict(name='find_slot: pool aliased, index of the element through a local', edits=[
        (_N, "                for ro in self.gpus:\n", "                pool = self.gpus\n                for ro in pool:\n")]),
    dict(name='find_slot: the two pick loops in one static helper (seeds C02-r4, C02-r8, C01-r3)',
         edits=_c02._fs_shared()),
    dict(name='find_slot: pick helper returns the list, caller compares the length (seed C02-r10)',
         edits=_c02._fs_picked()),
    dict(name='release_slots looks the node up by comparing indexes (early continue; SILENT variant of C01)', edits=[
        (_N, "        for slot in slots:\n\n            node = self.nodes[slot.node_index]\n            node.deallocate_slot(slot)\n\n", "        for slot in slots:\n\n            for node in self.nodes:\n                if node.index != slot.node_index:\n                    continue\n                node.deallocate_slot(slot)\n                break\n\n")]),
    dict(name='Node.allocate_slot: gpu bookings collected first, applied in a second loop (SILENT variant of C01)', edits=[(_N, '            for ro in gpus:\n                g_idx = self._get_gpu_index(ro)\n                self.gpus[g_idx].occupation += ro.occupation\n', '            todo = [(self._get_gpu_index(ro), ro.occupation) for ro in gpus]\n            for g_idx, occ in todo:\n                self.gpus[g_idx].occupation += occ\n')]),
    dict(name='_change_slot_states: lfs booked inside the node lookup loop, match branch (SILENT variant of C01)', edits=[(_B, "                if node['index'] == slot['node_index']:\n                    node_found = True\n                    break\n", "                if node['index'] == slot['node_index']:\n                    node_found = True\n                    if slot['lfs']:\n                        if new_state == rpc.BUSY:\n                            node['lfs'] -= slot['lfs']\n                        else:\n                            node['lfs'] += slot['lfs']\n                    break\n"), (_B, "            if slot['lfs']:\n                if new_state == rpc.BUSY:\n                    node['lfs'] -= slot['lfs']\n                else:\n                    node['lfs'] += slot['lfs']\n\n", '')]),
    dict(name='_change_slot_states: node guessed by position, verified by its index, search as fallback', edits=[
        (_B, "            for node in self.nodes:\n                if node['index'] == slot['node_index']:\n                    node_found = True\n                    break\n", "            if slot['node_index'] < len(self.nodes):\n                node = self.nodes[slot['node_index']]\n                if node['index'] == slot['node_index']:\n                    node_found = True\n            if not node_found:\n                for node in self.nodes:\n                    if node['index'] == slot['node_index']:\n                        node_found = True\n                        break\n")]),
    dict(name='jsrun _change_slot_states: node search in early-continue form', edits=[
        (_J, "            for node in self.nodes:\n                if node['index'] == slot['node_index']:\n                    node_found = True\n                    break\n", "            for node in self.nodes:\n                if node['index'] != slot['node_index']:\n                    continue\n                node_found = True\n                break\n")]),
    dict(name='_change_slot_states: node search in a helper that is given the slot (hoisted key, operands swapped)', edits=[
        (_B, "            node = None\n            node_found = False\n            for node in self.nodes:\n                if node['index'] == slot['node_index']:\n                    node_found = True\n                    break\n\n            if not node_found:\n                raise RuntimeError('inconsistent node information')\n", '            node = self._node_of(slot)\n'),
        (_B, '    def slot_status(self, msg=None, uid=None):\n', "    def _node_of(self, slot):\n        want = slot['node_index']\n        for cand in self.nodes:\n            if want == cand['index']:\n                return cand\n        raise RuntimeError('inconsistent node information')\n\n    def slot_status(self, msg=None, uid=None):\n")]),
    dict(name='jsrun _change_slot_states: guessed position, mismatch falls back to a search binding another local', edits=[
        (_J, "            node = None\n            node_found = False\n            for node in self.nodes:\n                if node['index'] == slot['node_index']:\n                    node_found = True\n                    break\n\n            if not node_found:\n                raise RuntimeError('inconsistent node information')\n", "            idx = slot['node_index']\n            node = self.nodes[idx] if idx < len(self.nodes) else None\n            if node is None or node['index'] != idx:\n                node = None\n                for cand in self.nodes:\n                    if cand['index'] == idx:\n                        node = cand\n                        break\n            if node is None:\n                raise RuntimeError('inconsistent node information')\n")]),
    dict(name='_change_slot_states: the slot list wrapped by a call before it is iterated', edits=[
        (_B, "        # for node_name, node_index, cores, gpus in slots['ranks']:\n        for slot in slots:\n", '        for slot in list(slots or []):\n')]),
]
