"""C03  Released resources come back exactly once and completely
(DESIGN 5 / C03).  R03.4 (one unschedule publication per finish path) is
decided by the C07 module and re-evaluated here."""

import ast

from ..model import (walk, dotted, call_name, kwarg, unparse, short, UNKNOWN,
                     root_name, AnalysisError, calls_in, stores_in_target)
from ..cfg import cfg_of
from ..flow import Deps, guards, must_pass, loop_slice
from .. import idioms as I
from .c01 import (sched_classes, consts, grant_paths, r01_1, BASE, CONT, JSRUN,
                  NODE, _ancestors)

NODELIST = ('resource_config.py', 'NodeList')


def _norm_target(t, alias=None):
    """access path with index expressions dropped: self.cores[c].occupation ->
    self.cores[*].occupation ; node['lfs'] -> node['lfs']"""
    parts = []
    e = t
    while True:
        if isinstance(e, ast.Attribute):
            parts.append('.' + e.attr)
            e = e.value
        elif isinstance(e, ast.Subscript):
            if isinstance(e.slice, ast.Constant) and \
                    isinstance(e.slice.value, str):
                parts.append('[%r]' % e.slice.value)
            else:
                parts.append('[*]')
            e = e.value
        elif isinstance(e, ast.Name):
            parts.append(e.id)
            break
        else:
            parts.append('?')
            break
    return ''.join(reversed(parts))


def _resolve_alias(f, expr):
    """operand with single-assignment local aliases expanded:
    lfs -> slot.lfs when `lfs = slot.lfs`"""
    if isinstance(expr, ast.Name):
        defs = [n for n in walk(f.node) if isinstance(n, ast.Assign) and
                any(isinstance(t, ast.Name) and t.id == expr.id
                    for t in n.targets)]
        if len(defs) == 1 and I.is_path(defs[0].value):
            return unparse(defs[0].value)
    return unparse(expr)


# ------------------------------------------------------------------------------
# R03.1  symmetric update
#
def r03_1(prog, rep, rid='R03.1'):
    rep.rule(rid, 'every debit has a mirror credit: opposite operator, same '
             'target, same operand, mirrored condition; cores/gpus are written '
             'with the new state itself', minimum=12)
    free, busy, down = consts(prog)
    base, classes = sched_classes(prog)
    seen = set()
    for K in classes:
        f = prog.find_method(K, '_change_slot_states')
        if id(f) in seen:
            continue
        seen.add(id(f))
        rep.saw(f)
        g = cfg_of(f)
        smap = I.stmt_node_map(g)
        params = [p for p in f.params if p != 'self']
        if len(params) < 2:
            raise AnalysisError('UNRECOGNISED-IDIOM %s: parameters' % f.where)
        state = params[1]
        augs = {}
        for n in walk(f.node):
            if isinstance(n, ast.AugAssign) and \
                    isinstance(n.op, (ast.Add, ast.Sub)):
                cn = smap[id(n)]
                pol = None          # True: under new_state == BUSY
                for tid, lab in guards(g, cn.id):
                    a = g.nodes[tid].ast
                    if isinstance(a, ast.Compare) and len(a.ops) == 1 and \
                            state in {x.id for x in walk(a)
                                      if isinstance(x, ast.Name)}:
                        other = a.comparators[0] if unparse(a.left) == state \
                            else a.left
                        v = prog.fold(f.module, other)
                        is_eq = isinstance(a.ops[0], (ast.Eq, ast.Is))
                        is_ne = isinstance(a.ops[0], (ast.NotEq, ast.IsNot))
                        if not (is_eq or is_ne) or v is UNKNOWN:
                            continue
                        truth = (lab == 'T') == is_eq     # state == v holds
                        if v == busy:
                            pol = truth
                        elif v == free:
                            pol = not truth
                augs.setdefault(_norm_target(n.target), []).append(
                    (n, pol, type(n.op), unparse(n.value)))
        if len(augs) < 2:
            raise AnalysisError('R03.1: %s has fewer than two debited '
                                'quantities' % f.where)
        for tgt, lst in sorted(augs.items()):
            deb = [x for x in lst if x[1] is True]
            cre = [x for x in lst if x[1] is False]
            unk = [x for x in lst if x[1] is None]
            okay = len(deb) == 1 and len(cre) == 1 and not unk and \
                deb[0][2] is ast.Sub and cre[0][2] is ast.Add and \
                deb[0][3] == cre[0][3]
            rep.check(okay, rid, f,
                      '%s: %s is debited (-=) under BUSY and credited (+=) '
                      'under FREE by the same operand' % (f.qual, tgt),
                      construct='%s:%s' % (f.qual, tgt),
                      message='%s: the updates of %s are not symmetric '
                      '(BUSY: %s, FREE: %s, unconditional: %s): a release '
                      'does not restore what the grant took'
                      % (f.qual, tgt,
                         [(x[2].__name__, x[3]) for x in deb],
                         [(x[2].__name__, x[3]) for x in cre],
                         [(x[2].__name__, x[3]) for x in unk]),
                      loc=f.loc(lst[0][0]),
                      history='grant and release of one task with lfs/mem: '
                      'the node ends with a different amount than it started '
                      'with')
        # cores / gpus: value written is the state parameter, unconditionally
        n_cg = 0
        for kind, target, stmt in I.stores(f.node):
            if kind != 'assign' or not isinstance(target, ast.Subscript):
                continue
            t = _norm_target(target)
            if not (t.endswith('[*]') and ('cores' in t or 'gpus' in t or
                    'cores' in unparse(stmt) or 'gpus' in unparse(stmt))):
                continue
            n_cg += 1
            cn = smap[id(stmt)]
            cond = [g.nodes[tid].ast for tid, lab in guards(g, cn.id)
                    if state in {x.id for x in walk(g.nodes[tid].ast)
                                 if isinstance(x, ast.Name)}]
            okay = isinstance(stmt.value, ast.Name) and \
                stmt.value.id == state and not cond
            rep.check(okay, rid, f, '%s: %s = %s (the new state itself, in '
                      'both directions)' % (f.qual, t, state), construct=stmt,
                      message='%s: %s is not set to the requested state in '
                      'both directions (value `%s`%s): BUSY and FREE do not '
                      'undo each other' % (f.qual, t, short(stmt.value, 30),
                                           ', conditional on the state'
                                           if cond else ''),
                      loc=f.loc(stmt),
                      history='a released core stays BUSY (or a granted core '
                      'stays FREE)')
        if n_cg < 2:
            raise AnalysisError('R03.1: %s: core/gpu state stores not found'
                                % f.where)

    # application-level pair Node.allocate_slot <-> deallocate_slot
    node = prog.cls(*NODE)
    fa = prog.find_method(node, 'allocate_slot')
    fd = prog.find_method(node, 'deallocate_slot')
    if fa is None or fd is None:
        raise AnalysisError('Node.allocate_slot / deallocate_slot missing')
    rep.saw(fa)
    rep.saw(fd)

    def collect(f):
        g = cfg_of(f)
        smap = I.stmt_node_map(g)
        out = {}
        for n in walk(f.node):
            if isinstance(n, ast.AugAssign) and \
                    isinstance(n.op, (ast.Add, ast.Sub)):
                cn = smap[id(n)]
                # conditions on the node's own state (self.*) that guard it
                cond = sorted('%s%s' % ('' if lab == 'T' else 'not ',
                                        unparse(g.nodes[tid].ast))
                              for tid, lab in guards(g, cn.id)
                              if 'self.' in unparse(g.nodes[tid].ast))
                operand = _resolve_alias(f, n.value)
                # normalise the parameter naming: `slot.` prefix
                out.setdefault(_norm_target(n.target), []).append(
                    (n, type(n.op), operand.split('.')[-1], cond))
        return out
    A, D = collect(fa), collect(fd)
    if len(A) < 4:
        raise AnalysisError('R03.1: Node.allocate_slot debits only %s'
                            % sorted(A))
    for tgt in sorted(set(A) | set(D)):
        a, dd = A.get(tgt, []), D.get(tgt, [])
        okay = len(a) == 1 and len(dd) == 1 and a[0][1] is not dd[0][1] and \
            a[0][2] == dd[0][2] and a[0][3] == dd[0][3]
        why = ''
        if len(a) == 1 and len(dd) == 1:
            if a[0][1] is dd[0][1]:
                why = 'same operator in both directions'
            elif a[0][2] != dd[0][2]:
                why = 'different operands (%s vs %s)' % (a[0][2], dd[0][2])
            elif a[0][3] != dd[0][3]:
                why = ('allocate is conditional on %s, deallocate on %s'
                       % (a[0][3] or 'nothing', dd[0][3] or 'nothing'))
        else:
            why = '%d update(s) in allocate_slot, %d in deallocate_slot' % (
                len(a), len(dd))
        rep.check(okay, rid, fd, 'Node: %s is updated symmetrically by '
                  'allocate_slot / deallocate_slot' % tgt,
                  construct='Node:%s' % tgt,
                  message='Node: allocate_slot and deallocate_slot do not '
                  'mirror each other on %s: %s' % (tgt, why),
                  loc=fd.loc((dd or a)[0][0]),
                  history='Node built without lfs/mem (the default None): '
                  'find_slot succeeds (debit skipped), release raises '
                  "TypeError on `None += 0` and the remaining slots of the "
                  'list are never released' if 'conditional' in why else
                  'allocate then deallocate one slot: the node does not '
                  'return to its initial state')


# ------------------------------------------------------------------------------
# R03.2  grant key = release key
#
def r03_2(prog, rep, rid='R03.2'):
    rep.rule(rid, "unschedule_task frees exactly task['slots'] (the key the "
             'grant attached), for every task it is given, unconditionally',
             minimum=2)
    free, busy, down = consts(prog)
    base, classes = sched_classes(prog)
    for K in classes:
        f = prog.find_method(K, 'unschedule_task')
        if f is None or f.cls is base:
            raise AnalysisError('%s.unschedule_task missing' % K.name)
        rep.saw(f)
        g = cfg_of(f)
        smap = I.stmt_node_map(g)
        hits = []
        for c in calls_in(f.node):
            if call_name(c) == 'self._change_slot_states':
                hits.append(c)
        if not hits:
            rep.bad(rid, f, 'no-release', '%s.unschedule_task does not call '
                    '_change_slot_states' % K.name, f.loc())
            continue
        param = [p for p in f.params if p != 'self'][0]
        for c in hits:
            a0, a1 = kwarg(c, 'slots', 0), kwarg(c, 'new_state', 1)
            n = smap[id(c)]
            d = Deps(f.node)
            okay = isinstance(a0, ast.Subscript) and \
                isinstance(a0.slice, ast.Constant) and \
                a0.slice.value == 'slots' and \
                param in d.expr_depends(a0) and a1 is not None and \
                prog.fold(f.module, a1) == free and \
                not guards(g, n.id)
            rep.check(okay, rid, f, "%s.unschedule_task: "
                      "_change_slot_states(task['slots'], rpc.FREE) for every "
                      'task' % K.name, construct=c,
                      message="%s.unschedule_task does not free task['slots'] "
                      'of every given task with rpc.FREE (call: %s%s)'
                      % (K.name, short(c, 70),
                         '; conditional' if guards(g, n.id) else ''),
                      loc=f.loc(c),
                      history='a finished task keeps its cores BUSY for the '
                      'rest of the pilot life time')


# ------------------------------------------------------------------------------
# R03.3  counter discipline (_active_cnt)
#
def r03_3(prog, rep, rid='R03.3'):
    rep.rule(rid, '_active_cnt: reset in initialize, +1 on every granting '
             'path (and only there), -1 once per released task together with '
             'queueing it for unschedule_task; every queued task is released',
             minimum=7)
    free, busy, down = consts(prog)
    base, classes = sched_classes(prog)
    methods = {}
    for K in [base] + classes:
        for name, f in K.methods.items():
            methods[(K.name, name)] = f
    writers = []
    for (kn, name), f in sorted(methods.items()):
        for n in walk(f.node, nested=True):
            tg = []
            if isinstance(n, ast.Assign):
                tg = n.targets
            elif isinstance(n, (ast.AugAssign, ast.AnnAssign)):
                tg = [n.target]
            for t in tg:
                for e in I._flat(t):
                    if unparse(e) == 'self._active_cnt':
                        writers.append((f, n))
    if len(writers) < 3:
        raise AnalysisError('R03.3: only %d writers of self._active_cnt found'
                            % len(writers))
    incs_try, incs_inc = [], []
    for f, n in writers:
        rep.saw(f)
        if isinstance(n, ast.Assign):
            okay = f.name in ('initialize', '__init__') and \
                isinstance(n.value, ast.Constant) and n.value.value == 0
            rep.check(okay, rid, f, '_active_cnt = 0 in %s' % f.qual,
                      construct=n, message='_active_cnt is overwritten in %s '
                      '(`%s`): the count of placed tasks is lost and the '
                      '"can never be scheduled" rule misfires'
                      % (f.qual, short(n, 50)), loc=f.loc(n))
            continue
        one = isinstance(n.value, ast.Constant) and n.value.value == 1
        if isinstance(n.op, ast.Add) and one and f.name == '_try_allocation':
            incs_try.append((f, n))
        elif isinstance(n.op, ast.Add) and one and \
                f.name == '_schedule_incoming':
            incs_inc.append((f, n))
        elif isinstance(n.op, ast.Sub) and f.name == '_unschedule_completed' \
                and (one or (isinstance(n.value, ast.Call) and
                             dotted(n.value.func) == 'len')):
            pass    # checked below
        else:
            rep.bad(rid, f, n, '_active_cnt is changed in %s by `%s`: not a '
                    'grant (+1 in _try_allocation / pre-placed branch) and not '
                    'a release (-1 in _unschedule_completed)'
                    % (f.qual, short(n, 50)), f.loc(n),
                    history='the count drifts; with a positive drift a task '
                    'that cannot fit the idle pilot waits forever, with a '
                    'negative one a task that fits is failed')
    # +1 on every granting path of _try_allocation
    for K in classes:
        f, g, var, starts = grant_paths(prog, rep, K, rid)
        smap = I.stmt_node_map(g)
        ids = [smap[id(n)].id for ff, n in incs_try if ff is f]
        okay = bool(ids) and starts.must_pass(ids)
        # and only on granting paths
        only = starts.only_granted(ids)
        rep.check(okay and only, rid, f, '%s: _active_cnt += 1 on every '
                  'granting path of _try_allocation and on no other'
                  % K.name, construct='%s:inc' % K.name,
                  message='%s._try_allocation: %s' % (K.name,
                      'a granting path does not count the task' if not okay
                      else 'the task is counted on a path that does not '
                      'grant'), loc=f.loc(),
                  history='after the first task finished the count is -1; the '
                  'next task that does not fit is kept waiting although the '
                  'pilot is idle (or failed although it would fit later)')
    # pre-placed branch: +1 must come with the BUSY marking, before the
    # hand-on (R01.3c decides the marking itself)
    fi = prog.method(BASE[0], BASE[1], '_schedule_incoming')
    g = cfg_of(fi)
    smap = I.stmt_node_map(g)
    target = prog.const('states.py', 'AGENT_EXECUTING_PENDING')
    for c in calls_in(fi.node):
        if not I.is_handon(c) or I.handon_state(prog, fi, c) != target:
            continue
        node = smap[id(c)]
        from .c01 import granted_by_try
        if granted_by_try(fi, g, node):
            continue
        start = loop_slice(g, node.loops[-1])[0] if node.loops else g.entry.id
        ids = [smap[id(n)].id for ff, n in incs_inc]
        okay = bool(ids) and must_pass(g, start, node.id, ids)
        rep.check(okay, rid, fi, 'tasks started with application-supplied '
                  'slots are counted active', construct=c,
                  message='a task with application-supplied slots is started '
                  'without `_active_cnt += 1` although its release decrements '
                  'the count', loc=fi.loc(c),
                  history='one pre-placed task runs and finishes: the count is '
                  '-1; a task that fits only the idle pilot is then failed as '
                  '"can never be scheduled" while another task is running')
    for ff, n in incs_inc:
        nn = smap[id(n)]
        feeds = any(I.is_handon(c) and I.handon_state(prog, fi, c) == target
                    and smap[id(c)].id in g.reachable(nn.id, no_back=True)
                    for c in calls_in(fi.node))
        rep.check(feeds, rid, fi, '_active_cnt += 1 in _schedule_incoming '
                  'leads to a start', construct=n, message='_active_cnt is '
                  'incremented in _schedule_incoming on a path that does not '
                  'start a task', loc=fi.loc(n))
    # -1 together with queueing for release; every queued task released
    fu = prog.method(BASE[0], BASE[1], '_unschedule_completed')
    rep.saw(fu)
    g = cfg_of(fu)
    smap = I.stmt_node_map(g)
    decs = [n for ff, n in writers if ff is fu and isinstance(n, ast.AugAssign)
            and isinstance(n.op, ast.Sub)]
    rel_calls = [c for c in calls_in(fu.node)
                 if call_name(c) == 'self.unschedule_task']
    if not rel_calls:
        raise AnalysisError('R03.3: _unschedule_completed does not call '
                            'self.unschedule_task')
    relc = rel_calls[0]
    reln = smap[id(relc)]
    heads = [g.nodes[h] for h in reln.loops if g.nodes[h].kind == 'for']
    if not heads or not root_name(heads[-1].ast.iter):
        raise AnalysisError('UNRECOGNISED-IDIOM %s: unschedule_task is not '
                            'called in a loop over a list' % fu.where)
    H = heads[-1]
    qname = root_name(H.ast.iter)
    rep.check(isinstance(H.ast.iter, ast.Name), rid, fu, 'the release loop '
              'iterates the whole list %s' % qname, construct='release-loop',
              message='the release loop iterates `%s`, not the whole list of '
              'queued tasks' % short(H.ast.iter, 40), loc=fu.loc(H.ast),
              history='two tasks finish in one bulk: only one is released')
    okarg = relc.args and isinstance(relc.args[0], ast.Name) and \
        relc.args[0].id in stores_in_target(H.ast.target) and \
        not [x for x in guards(g, reln.id)
             if g.nodes[x[0]].loops == reln.loops]
    rep.check(okarg, rid, fu, 'every task of %s is passed to unschedule_task'
              % qname, construct=relc, message='not every task queued in %s '
              'is passed to unschedule_task (conditional call or wrong '
              'argument)' % qname, loc=fu.loc(relc),
              history='a finished task is counted out but its cores stay BUSY')
    queues = [c for c in calls_in(fu.node)
              if isinstance(c.func, ast.Attribute) and c.func.attr in
              ('append', 'extend') and unparse(c.func.value) == qname]
    if not queues:
        raise AnalysisError('UNRECOGNISED-IDIOM %s: nothing is appended to %s'
                            % (fu.where, qname))
    # alternative form: one `-= len(<queue>)` for the whole bulk, executed on
    # every path from the fill loop to the exit on which the queue is not empty
    bulk = [d for d in decs if isinstance(d.value, ast.Call) and
            dotted(d.value.func) == 'len' and d.value.args and
            unparse(d.value.args[0]) == qname]
    fill_iter = set()
    for q in queues:
        for h in smap[id(q)].loops:
            if g.nodes[h].kind == 'for' and isinstance(g.nodes[h].ast.iter,
                                                       ast.Name):
                fill_iter.add(g.nodes[h].ast.iter.id)
    empties = [(n.id, 'F') for n in g.nodes if n.kind == 'test' and
               isinstance(n.ast, ast.Name) and n.ast.id in ({qname} |
                                                            fill_iter)]
    if bulk and len(bulk) == len(decs):
        bn = smap[id(bulk[0])]
        fill_heads = {h for q in queues for h in smap[id(q)].loops}
        after_fill = [e.dst for h in fill_heads for e in g.succ[h]
                      if e.label == 'done']
        okb = len(bulk) == 1 and not (set(bn.loops) & fill_heads) and all(
            g.exit.id not in g.reachable(s0, skip_nodes={bn.id},
                                         skip_edges=empties)
            for s0 in after_fill)
        rep.check(okb, rid, fu, '_active_cnt -= len(%s) once for the whole '
                  'bulk, on every path with a non-empty queue' % qname,
                  construct='bulk-decrement', message='the bulk decrement '
                  '`%s` is not executed exactly once on every path on which '
                  '%s holds tasks' % (short(bulk[0], 40), qname),
                  loc=fu.loc(bulk[0]), history='N tasks finish: the count '
                  'drops by != N')
        queues_to_pair, decs_to_pair = [], []
    else:
        queues_to_pair, decs_to_pair = queues, decs
    for q in queues_to_pair:
        qn = smap[id(q)]
        paired = [d for d in decs
                  if set(guards(g, smap[id(d)].id)) == set(guards(g, qn.id))
                  and smap[id(d)].loops == qn.loops]
        rep.check(len(paired) == 1, rid, fu, '_active_cnt -= 1 exactly once '
                  'with %s' % short(q, 40), construct=q,
                  message='queueing a task for release (%s) is paired with %d '
                  'decrement(s) of _active_cnt under the same conditions'
                  % (short(q, 40), len(paired)), loc=fu.loc(q),
                  history='N tasks finish: the count drops by != N')
    for dn in decs_to_pair:
        d = smap[id(dn)]
        paired = [q for q in queues
                  if set(guards(g, smap[id(q)].id)) == set(guards(g, d.id))
                  and smap[id(q)].loops == d.loops]
        rep.check(len(paired) == 1, rid, fu, 'each _active_cnt -= 1 belongs '
                  'to one queued task', construct=dn,
                  message='_active_cnt is decremented without queueing a '
                  'task for release under the same conditions', loc=fu.loc(dn))
    # returns before the release loop only when nothing was queued
    for n in g.stmt_nodes():
        if n.kind == 'stmt' and isinstance(n.ast, ast.Return) and \
                n.id in g.reachable(g.entry.id, skip_nodes={H.id}):
            gs = guards(g, n.id)
            empty = any(isinstance(g.nodes[t].ast, ast.Name) and
                        g.nodes[t].ast.id in ({qname} | fill_iter) and
                        lab == 'F' for t, lab in gs)
            rep.check(empty, rid, fu, 'return before the release loop only '
                      'when %s is empty' % qname, construct=n.ast,
                      message='_unschedule_completed can return before the '
                      'release loop although %s holds tasks' % qname,
                      loc=fu.loc(n.ast),
                      history='finished tasks are counted out but never '
                      'released')
    # first element of the return value is true on every path that released
    for n in g.stmt_nodes():
        if n.kind == 'stmt' and isinstance(n.ast, ast.Return) and \
                n.id in g.reachable(H.id) and n.id not in \
                g.reachable(g.entry.id, skip_nodes={H.id}):
            v = n.ast.value
            first = v.elts[0] if isinstance(v, ast.Tuple) and v.elts else v
            okay = isinstance(first, ast.Constant) and first.value is True
            rep.check(okay, 'R04.4', fu, 'after a release the first result of '
                      '_unschedule_completed is True', construct=n.ast,
                      message='_unschedule_completed released resources but '
                      'does not report it (first result `%s`): the wait pool '
                      'is not re-examined' % short(first, 20),
                      loc=fu.loc(n.ast),
                      history='a task waits alone; the running task '
                      'finishes; the waiting task is never started')


# ------------------------------------------------------------------------------
# R03.5  the unschedule message reaches the scheduler loop
#
def r03_5(prog, rep, rid='R03.5'):
    rep.rule(rid, 'unschedule_cb forwards every message to the queue whose '
             'only consumer is _unschedule_completed, which keeps everything '
             'it receives', minimum=3)
    f = prog.method(BASE[0], BASE[1], 'unschedule_cb')
    rep.saw(f)
    g = cfg_of(f)
    smap = I.stmt_node_map(g)
    msg = [p for p in f.params if p != 'self'][-1]
    puts = [c for c in calls_in(f.node) if isinstance(c.func, ast.Attribute)
            and c.func.attr == 'put' and dotted(c.func.value).startswith(
                'self.')]
    okay = False
    qattr = None
    for c in puts:
        if c.args and isinstance(c.args[0], ast.Name) and c.args[0].id == msg:
            qattr = dotted(c.func.value)
            if not guards(g, smap[id(c)].id):
                okay = True
    rep.check(okay, rid, f, 'unschedule_cb puts every message on %s '
              'unconditionally' % qattr, construct='unschedule_cb:put',
              message='unschedule_cb does not forward every unschedule '
              'message unconditionally to the scheduler queue', loc=f.loc(),
              history='a task finishes, its unschedule message is dropped: '
              'its cores stay BUSY')
    if not qattr:
        return
    base = prog.cls(*BASE)
    consumers = []
    for name, m in base.methods.items():
        for c in calls_in(m.node):
            if isinstance(c.func, ast.Attribute) and c.func.attr in \
                    ('get', 'get_nowait') and dotted(c.func.value) == qattr:
                consumers.append((m, c))
    rep.check(len(consumers) == 1 and
              consumers[0][0].name == '_unschedule_completed', rid, base,
              '%s has the single consumer _unschedule_completed' % qattr,
              construct='consumers:%s' % qattr,
              message='%s is consumed by %s: a release message can be taken '
              'by a consumer that does not release'
              % (qattr, [m.qual for m, c in consumers]))
    if consumers:
        m, c = consumers[0]
        g = cfg_of(m)
        smap = I.stmt_node_map(g)
        gn = smap[id(c)]
        var = None
        if isinstance(gn.ast, ast.Assign) and isinstance(gn.ast.targets[0],
                                                         ast.Name):
            var = gn.ast.targets[0].id
        keep = []
        for n in g.stmt_nodes():
            if n.kind == 'stmt' and var and var in \
                    {x.id for x in walk(n.ast) if isinstance(x, ast.Name)
                     and isinstance(x.ctx, ast.Load)} and (
                    isinstance(n.ast, ast.AugAssign) or any(
                        isinstance(cc.func, ast.Attribute) and cc.func.attr in
                        ('append', 'extend') for cc in calls_in(n.ast))):
                keep.append(n.id)
        start, stop, stop_edge = loop_slice(g, gn.loops[-1]) if gn.loops \
            else (g.entry.id, None, None)
        okk = bool(keep)
        if okk:
            # every way out of the iteration after the get passes a keep
            body = g.loop_body[gn.loops[-1]] if gn.loops else set()
            r = set()
            for e in g.succ[gn.id]:
                if e.label != 'exc':
                    r |= g.reachable(e.dst, skip_nodes=set(keep),
                                     no_back=True)
            leaves = [x for x in r if x not in body] if gn.loops else \
                [x for x in r if x == g.exit.id]
            backs = [e for x in r & body for e in g.succ[x] if e.back]
            okk = not leaves and not backs
        rep.check(okk, rid, m, 'everything taken from %s is kept for release'
                  % qattr, construct='%s:keep' % m.qual,
                  message='%s: a message taken from %s can be dropped before '
                  'it is added to the list of tasks to unschedule'
                  % (m.qual, qattr), loc=m.loc(c))


# ------------------------------------------------------------------------------
# R03.6  rollback of a partial application-level search
#
def r03_6(prog, rep, rid='R03.6'):
    rep.rule(rid, 'NodeList.find_slots: a failure return after a successful '
             'find_slot (which allocates) passes the loop that deallocates '
             'the partial result; release_slots deallocates every slot',
             minimum=2)
    nl = prog.cls(*NODELIST)
    f = prog.find_method(nl, 'find_slots')
    rep.saw(f)
    g = cfg_of(f)
    smap = I.stmt_node_map(g)
    finds = [smap[id(c)] for c in calls_in(f.node)
             if isinstance(c.func, ast.Attribute) and
             c.func.attr == 'find_slot']
    if not finds:
        raise AnalysisError('R03.6: NodeList.find_slots does not call '
                            'find_slot')
    res = None
    for c in calls_in(f.node):
        if isinstance(c.func, ast.Attribute) and c.func.attr == 'append' and \
                isinstance(c.func.value, ast.Name):
            res = c.func.value.id
            app = smap[id(c)]
    if res is None:
        raise AnalysisError('UNRECOGNISED-IDIOM %s: no result list' % f.where)
    undo = []
    for n in g.nodes:
        if n.kind == 'for' and isinstance(n.ast.iter, ast.Name) and \
                n.ast.iter.id == res:
            tv = stores_in_target(n.ast.target)
            for c in calls_in(n.ast):
                if isinstance(c.func, ast.Attribute) and \
                        c.func.attr == 'deallocate_slot' and c.args and \
                        isinstance(c.args[0], ast.Name) and \
                        c.args[0].id in tv and \
                        not [x for x in guards(g, smap[id(c)].id)
                             if g.nodes[x[0]].loops == smap[id(c)].loops]:
                    undo.append(n.id)
    fails = [n for n in g.stmt_nodes() if n.kind == 'stmt' and
             isinstance(n.ast, ast.Return) and (
                 n.ast.value is None or (isinstance(n.ast.value, ast.Constant)
                                         and n.ast.value.value is None))]
    n_ob = 0
    for r in fails:
        if r.id not in g.reachable(app.id):
            continue
        n_ob += 1
        okay = bool(undo) and must_pass(g, app.id, r.id, undo)
        rep.check(okay, rid, f, 'failure return after an allocation passes '
                  'the roll-back loop', construct=r.ast,
                  message='NodeList.find_slots can return failure after '
                  'find_slot allocated slots without deallocating them',
                  loc=f.loc(r.ast),
                  history='find_slots(rr, 3) on a list with room for 2: the 2 '
                  'slots found stay allocated although the call failed')
    if not n_ob:
        raise AnalysisError('UNRECOGNISED-IDIOM %s: no failure return after '
                            'the search loop' % f.where)
    f2 = prog.find_method(nl, 'release_slots')
    rep.saw(f2)
    g2 = cfg_of(f2)
    smap2 = I.stmt_node_map(g2)
    param = [p for p in f2.params if p != 'self'][0]
    okay = False
    for n in g2.nodes:
        if n.kind == 'for' and unparse(n.ast.iter) == param:
            tv = stores_in_target(n.ast.target)
            for c in calls_in(n.ast):
                if isinstance(c.func, ast.Attribute) and \
                        c.func.attr == 'deallocate_slot' and c.args and \
                        isinstance(c.args[0], ast.Name) and c.args[0].id in tv \
                        and not [x for x in guards(g2, smap2[id(c)].id)
                                 if g2.nodes[x[0]].loops ==
                                 smap2[id(c)].loops]:
                    okay = True
    rep.check(okay, rid, f2, 'release_slots deallocates every slot it is '
              'given', construct='release_slots',
              message='NodeList.release_slots does not deallocate every slot '
              'of its argument unconditionally', loc=f2.loc())


# ------------------------------------------------------------------------------
#
def run(prog, rep, tier):
    rep.decided = ('debit/credit symmetry of _change_slot_states (both '
        'schedulers) and of Node.allocate_slot/deallocate_slot including the '
        'conditions they run under; unschedule_task frees exactly '
        "task['slots'] with FREE for every task; _active_cnt is written only "
        'by grant (+1 on every granting path) and release (-1 once per queued '
        'task), every queued task is released; the unschedule message reaches '
        'the scheduler loop and is kept; single writer of occupancy (R01.1 '
        're-evaluated: a second writer is what makes a failed multi-node '
        'search leak); roll-back of a partial NodeList.find_slots; one '
        'unschedule publication per finish path (R07.1, re-evaluated from the '
        'C07 module when present).')
    rep.undecided = ('the NUMA-domain path (NumaNode.find_slot allocates on '
        'per-domain Node objects while release_slots credits the top-level '
        'node): needs alias reasoning over objects built at run time; real '
        'interleavings between executor threads.')
    rep.assumptions = [
        'scope: AgentSchedulingComponent, Continuous, ContinuousJsrun, '
        'resource_config.Node/NodeList',
        'zmq pubsub delivers every published unschedule message once',
    ]
    rep.attempt(r03_1, prog, rep)
    rep.attempt(r03_2, prog, rep)
    rep.attempt(r03_3, prog, rep)
    rep.rule('R04.4', 'a release is reported to the scheduler loop (first '
             'result of _unschedule_completed)', minimum=1)
    rep.rule('R03.4b', 'single writer of occupancy (R01.1)', minimum=8)
    rep.attempt(r01_1, prog, rep, rid='R03.4b')
    rep.attempt(r03_5, prog, rep)
    rep.attempt(r03_6, prog, rep)
    try:
        from . import c07
        if hasattr(c07, 'r07_1'):
            # only the release side matters here: the late-cancel path
            # (known finding K2 of C07) hands on twice but releases once
            rep.attempt(c07.r07_1, prog, rep, rid='R03.4', pub_only=True)
            # releases racing with cancellation: both contenders release only
            # after the locked test-and-remove
            rep.attempt(c07.r07_2, prog, rep, rid='R07.2')
    except ImportError:
        pass


# ------------------------------------------------------------------------------
_B = 'agent/scheduler/base.py'
_C = 'agent/scheduler/continuous.py'
_J = 'agent/scheduler/continuous_jsrun.py'
_N = 'resource_config.py'

MUTATIONS = [
    dict(name='R03.1 lfs credited with mem', rules=('R03.1',), edits=[
        (_B, "                else:\n                    node['lfs'] += slot['lfs']\n", "                else:\n                    node['lfs'] += slot['mem']\n")]),
    dict(name='R03.1 mem never credited', rules=('R03.1',), edits=[
        (_B, "                if new_state == rpc.BUSY:\n                    node['mem'] -= slot['mem']\n                else:\n                    node['mem'] += slot['mem']\n",
             "                if new_state == rpc.BUSY:\n                    node['mem'] -= slot['mem']\n")]),
    dict(name='R03.1 debit under FREE', rules=('R03.1',), edits=[
        (_J, "            if slot['lfs']:\n                if new_state == rpc.BUSY:", "            if slot['lfs']:\n                if new_state == rpc.FREE:")]),
    dict(name='R03.1 both directions subtract', rules=('R03.1',), edits=[
        (_J, "                else:\n                    node['mem'] += slot['mem']\n", "                else:\n                    node['mem'] -= slot['mem']\n")]),
    dict(name='R03.1 gpus always marked BUSY', rules=('R03.1',), edits=[
        (_B, "                node['gpus'][gpu['index']] = new_state\n", "                node['gpus'][gpu['index']] = rpc.BUSY\n")]),
    dict(name='R03.1 cores only marked on BUSY', rules=('R03.1',), edits=[
        (_B, "            for core in slot['cores']:\n                node['cores'][core['index']] = new_state\n", "            for core in slot['cores']:\n                if new_state == rpc.BUSY:\n                    node['cores'][core['index']] = new_state\n")]),
    dict(name='R03.1 Node credit unconditional (F18 reverted)', rules=('R03.1',), edits=[
        (_N, "            if self.lfs is not None: self.lfs += slot.lfs\n", "            self.lfs += slot.lfs\n")]),
    dict(name='R03.1 Node gpu occupation not credited', rules=('R03.1',), edits=[
        (_N, "            for ro in slot.gpus:\n                self.gpus[ro.index].occupation -= ro.occupation\n", "")]),
    dict(name='R03.1 Node core credit uses full occupancy', rules=('R03.1',), edits=[
        (_N, "                self.cores[ro.index].occupation -= ro.occupation\n", "                self.cores[ro.index].occupation -= BUSY\n")]),
    dict(name='R03.2 release frees only the first slot', rules=('R03.2',), edits=[
        (_C, "            self._change_slot_states(task['slots'], rpc.FREE)", "            self._change_slot_states(task['slots'][:1], rpc.FREE)")]),
    dict(name='R03.2 release marks BUSY', rules=('R03.2',), edits=[
        (_J, "            self._change_slot_states(task['slots'], rpc.FREE)", "            self._change_slot_states(task['slots'], rpc.BUSY)")]),
    dict(name='R03.2 release skipped for failed tasks', rules=('R03.2',), edits=[
        (_C, "            self._change_slot_states(task['slots'], rpc.FREE)", "            if task.get('target_state') != 'FAILED':\n                self._change_slot_states(task['slots'], rpc.FREE)")]),
    dict(name='R03.3 grant not counted', rules=('R03.3',), edits=[
        (_B, "            self._active_cnt += 1\n\n            # the task was placed", "            # the task was placed")]),
    dict(name='R03.3 counted before the search result is known', rules=('R03.3',), edits=[
        (_B, "            self._active_cnt += 1\n\n            # the task was placed", "            # the task was placed"),
        (_B, "            slots, partition = self.schedule_task(task)\n", "            self._active_cnt += 1\n            slots, partition = self.schedule_task(task)\n")]),
    dict(name='R03.3 pre-placed task not counted', rules=('R03.3',), edits=[
        (_B, "                        continue\n                    self._active_cnt += 1\n", "                        continue\n")]),
    dict(name='R03.3 release decrements twice', rules=('R03.3',), edits=[
        (_B, "            to_release.append(task)\n            self._active_cnt -= 1\n", "            to_release.append(task)\n            self._active_cnt -= 1\n            self._active_cnt -= 1\n")]),
    dict(name='R03.3 decrement only for tasks with slots', rules=('R03.3',), edits=[
        (_B, "            to_release.append(task)\n            self._active_cnt -= 1\n", "            to_release.append(task)\n            if task.get('slots'):\n                self._active_cnt -= 1\n")]),
    dict(name='R03.3 count reset when the wait pool runs', rules=('R03.3',), edits=[
        (_B, "        active    = False  # nothing happeend yet\n", "        active    = False  # nothing happeend yet\n        self._active_cnt = 0\n")]),
    dict(name='R03.3 release loop skips every other task', rules=('R03.3',), edits=[
        (_B, "        for task in to_release:\n", "        for task in to_release[::2]:\n")]),
    dict(name='R03.3 queued tasks not released when bulk is small', rules=('R03.3',), edits=[
        (_B, "        if not to_release:\n            if not to_unschedule:", "        if len(to_release) < 2:\n            if not to_unschedule:")]),
    dict(name='R04.4 release not reported', rules=('R04.4',), edits=[
        (_B, "        # we have new resources, and were active\n        return True, True", "        # we have new resources, and were active\n        return False, True")]),
    dict(name='R03.4b occupancy written by unschedule_task directly', rules=('R03.4b',), edits=[
        (_C, "        for task in ru.as_list(tasks):\n            self._change_slot_states(task['slots'], rpc.FREE)", "        for task in ru.as_list(tasks):\n            self._change_slot_states(task['slots'], rpc.FREE)\n            for node in self.nodes:\n                node['lfs'] += 0")]),
    dict(name='R03.5 unschedule messages filtered', rules=('R03.5',), edits=[
        (_B, "        self._queue_unsched.put(msg)\n", "        if msg:\n            self._queue_unsched.put(msg)\n")]),
    dict(name='R03.5 received bulk dropped when large', rules=('R03.5',), edits=[
        (_B, "                to_unschedule += ru.as_list(tasks)\n", "                if len(to_unschedule) < 512:\n                    to_unschedule += ru.as_list(tasks)\n")]),
    dict(name='R03.6 partial result not rolled back', rules=('R03.6',), edits=[
        (_N, "            for slot in slots:\n                node = self.nodes[slot.node_index]\n                node.deallocate_slot(slot)\n            self.__last_failed_rr__ = rr", "            self.__last_failed_rr__ = rr")]),
    dict(name='R03.6 release_slots skips the last slot', rules=('R03.6',), edits=[
        (_N, "        for slot in slots:\n\n            node = self.nodes[slot.node_index]\n            node.deallocate_slot(slot)\n\n        if self.__last_failed_rr__:", "        for slot in slots[:-1]:\n\n            node = self.nodes[slot.node_index]\n            node.deallocate_slot(slot)\n\n        if self.__last_failed_rr__:")]),
]

SILENT = [
    dict(name='symmetric update written with FREE test', edits=[
        (_B, "                if new_state == rpc.BUSY:\n                    node['lfs'] -= slot['lfs']\n                else:\n                    node['lfs'] += slot['lfs']\n",
             "                if new_state == rpc.FREE:\n                    node['lfs'] += slot['lfs']\n                else:\n                    node['lfs'] -= slot['lfs']\n")]),
    dict(name='symmetric update with != test', edits=[
        (_J, "                if new_state == rpc.BUSY:\n                    node['mem'] -= slot['mem']\n                else:\n                    node['mem'] += slot['mem']\n",
             "                if new_state != rpc.BUSY:\n                    node['mem'] += slot['mem']\n                else:\n                    node['mem'] -= slot['mem']\n")]),
    dict(name='decrement before queueing', edits=[
        (_B, "            to_release.append(task)\n            self._active_cnt -= 1\n", "            self._active_cnt -= 1\n            to_release.append(task)\n")]),
    dict(name='unschedule_task with explicit list', edits=[
        (_C, "        for task in ru.as_list(tasks):\n            self._change_slot_states(task['slots'], rpc.FREE)", "        tasks = ru.as_list(tasks)\n        for t in tasks:\n            self._change_slot_states(t['slots'], rpc.FREE)")]),
    dict(name='count after marking in _try_allocation', edits=[
        (_B, "            self._active_cnt += 1\n\n            # the task was placed", "            # the task was placed"),
        (_B, "            task['partition'] = partition\n\n            self.slot_status('after scheduled task', task['uid'])", "            task['partition'] = partition\n            self._active_cnt += 1\n\n            self.slot_status('after scheduled task', task['uid'])")]),
    dict(name='Node credit as nested if', edits=[
        (_N, "            if self.lfs is not None: self.lfs += slot.lfs\n", "            if self.lfs is not None:\n                self.lfs += slot.lfs\n")]),
    dict(name='rollback via release helper variable', edits=[
        (_N, "            for slot in slots:\n                node = self.nodes[slot.node_index]\n                node.deallocate_slot(slot)\n            self.__last_failed_rr__ = rr", "            for s in slots:\n                self.nodes[s.node_index].deallocate_slot(s)\n            self.__last_failed_rr__ = rr")]),
    dict(name='placement result tested into a local first', edits=[
        (_B, "                    if self._try_allocation(task):\n                        # task got scheduled", "                    placed = self._try_allocation(task)\n                    if placed:\n                        # task got scheduled")]),
]
