"""C14  Pilot states move forward and end for the right reason  (DESIGN 5 / C14)

Also hosts two helpers shared with c16 / c20 (engine files must not be edited):

* `Interp`  - a small value interpreter over the CFG (constant environment,
  three-valued tests, resolved self calls inlined to a stated depth).  It is
  an abstract interpretation of the *syntax tree*; nothing of /repo is imported
  or executed.
* `freeze` / `thaw` - hashable environments.
"""

import os
import re
import ast

from ..model import (walk, dotted, call_name, kwarg, unparse, short, UNKNOWN,
                     root_name, AnalysisError, calls_in, stores_in_target)
from ..cfg import cfg_of
from ..flow import (guards, must_pass, loop_slice, Exploration, Deps,
                    reaching_defs)
from .. import idioms as I

UNK = UNKNOWN

STATES = 'states.py'
PILOT  = ('pilot.py', 'Pilot')
PMGR   = ('pilot_manager.py', 'PilotManager')
AGENT  = ('agent/agent_0.py', 'Agent_0')
LAUNCH = ('pmgr/launching/base.py', 'PMGRLaunchingComponent')
BOOT   = 'agent/bootstrap_0.sh'
CAUSE  = 'self._final_cause'


# ------------------------------------------------------------------------------
# hashable values
#
def freeze(v):
    if isinstance(v, dict):
        return ('__D', tuple((freeze(k), freeze(x)) for k, x in v.items()))
    if isinstance(v, list):
        return ('__L', tuple(freeze(x) for x in v))
    if isinstance(v, tuple):
        return ('__T', tuple(freeze(x) for x in v))
    if isinstance(v, (set, frozenset)):
        return ('__L', tuple(freeze(x) for x in v))
    return v


def thaw(v):
    if isinstance(v, tuple) and len(v) == 2 and v[0] in ('__D', '__L', '__T'):
        if v[0] == '__D':
            return {thaw(k): thaw(x) for k, x in v[1]}
        if v[0] == '__L':
            return [thaw(x) for x in v[1]]
        return tuple(thaw(x) for x in v[1])
    return v


class Sym:
    """symbolic value of an attribute of self that is never assigned on the
    path (only produced by Interp(symbolic=True)): equal to itself, unknown
    against everything else"""
    __slots__ = ('key',)

    def __init__(self, key):
        self.key = key

    def __eq__(self, other):
        return isinstance(other, Sym) and other.key == self.key

    def __ne__(self, other):
        return not self.__eq__(other)

    def __hash__(self):
        return hash(('Sym', self.key))

    def __repr__(self):
        return '<%s>' % self.key


class Alias:
    """a local name bound to the same list / dict object as another variable
    (`bucket = executable_tasks`): reads and mutations go to the target"""
    __slots__ = ('key',)

    def __init__(self, key):
        self.key = key

    def __eq__(self, other):
        return isinstance(other, Alias) and other.key == self.key

    def __hash__(self):
        return hash(('Alias', self.key))

    def __repr__(self):
        return '&%s' % self.key


def deref(env, k):
    n = 0
    while k is not None and isinstance(env.get(k), Alias) and n < 5:
        k = env[k].key
        n += 1
    return k


def unsym(v):
    return UNK if isinstance(v, Sym) else v


def truth(v):
    """three-valued truth: True / False / None (unknown)"""
    if v is UNK or isinstance(v, Sym):
        return None
    if isinstance(v, (list, tuple, dict)) and any(x is UNK for x in
                                                   (v.values() if isinstance(v, dict) else v)):
        return True if len(v) else False
    try:
        return bool(v)
    except Exception:
        return None


def _key_of(e):
    """environment key of an lvalue-like expression, or None: names, dotted
    attributes, constant subscripts below those"""
    if isinstance(e, ast.Name):
        return e.id
    if isinstance(e, ast.Attribute):
        b = _key_of(e.value)
        return None if b is None else '%s.%s' % (b, e.attr)
    if isinstance(e, ast.Subscript) and isinstance(e.slice, ast.Constant):
        b = _key_of(e.value)
        return None if b is None else '%s[%r]' % (b, e.slice.value)
    return None


_BUILTINS = {'int': int, 'str': str, 'bool': bool, 'float': float, 'len': len,
             'list': list, 'dict': dict, 'tuple': tuple, 'repr': repr,
             'range': lambda *a: list(range(*a)), 'sorted': sorted,
             'min': min, 'max': max, 'abs': abs,
             'reversed': lambda x: list(reversed(x)),
             'enumerate': lambda x, start=0: [tuple(t) for t in
                                              enumerate(x, start)]}
_TYPES = {'list': list, 'dict': dict, 'str': str, 'int': int, 'tuple': tuple,
          'float': float, 'bool': bool}
MAX_UNROLL = 64
MAX_CALLEE_STMTS = 80


# ------------------------------------------------------------------------------
#
class Interp:
    """Value interpreter for one function (and the self calls it resolves).

    env      : {key: value}; keys as in `_key_of`; values are python constants,
               lists/dicts of those, or UNK
    inputs   : {key: value} consulted when a key is not in env (symbolic
               inputs such as "task['exit_code']"); never killed
    track    : keys ('self.attr') whose writers are followed into resolved
               self calls (callees that cannot write them are not entered)
    observe  : observe(func, node, env) called whenever the effect of a CFG node
               takes place (the node is left by a non-'exc' edge)
    env['@h'] holds the line numbers of the `except` clauses entered so far
    (path marker for "this path went through a handler").
    """

    # a subclass whose `ev` models failing lookups sets `_fault` to a short
    # description while it evaluates; `run` then lets the node raise (only its
    # 'exc' edges are followed) and tells `fault_at`.  The base `ev` never
    # sets it.
    _fault = None

    def fault_at(self, f, g, node, env, what):
        """hook: evaluating `node` of f in env raised (`what`)"""

    def __init__(self, prog, cls, track=(), inputs=None, depth=3, observe=None,
                 max_states=50000, symbolic=False):
        self.prog    = prog
        self.cls     = cls
        self.track   = set(track)
        self.inputs  = dict(inputs or {})
        self.depth   = depth
        self.observe = observe
        self.max     = max_states
        self.states  = 0
        self._mw     = {}
        self.unresolved = 0
        self.symbolic = symbolic
        self._evdepth = 0
        self._argonly = {}

    # --------------------------------------------------------------------------
    def may_write(self, f, depth=None, _seen=None):
        """f (or a self callee within depth) assigns a tracked key"""
        depth = self.depth if depth is None else depth
        k = (id(f.node), depth)
        if k in self._mw:
            return self._mw[k]
        _seen = _seen or set()
        if id(f.node) in _seen:
            return False
        _seen = _seen | {id(f.node)}
        res = self._direct_write(f)
        if not res and depth > 0:
            for c in calls_in(f.node):
                g = self._callee(f, c)
                if g is not None and self.may_write(g, depth - 1, _seen):
                    res = True
                    break
        self._mw[k] = res
        return res

    def _direct_write(self, f):
        """f itself assigns a tracked key (hook: subclasses may follow other
        effects into callees)"""
        for kind, target, stmt in I.stores(f.node):
            if _key_of(target) in self.track:
                return True
        return False

    def arg_only(self, f, test):
        """the test reads nothing but parameters of f (and locals computed
        from them): its outcome is chosen by the caller's arguments"""
        k = (id(f.node), id(test))
        if k not in self._argonly:
            from ..flow import Deps, assigned_names
            d = self._argonly.get(id(f.node))
            if d is None:
                d = self._argonly[id(f.node)] = (Deps(f.node, nested=False),
                                                 assigned_names(f.node))
            deps, local = d
            params = set(f.params) - {'self', 'cls'}
            ok = True
            for x in deps.expr_depends(test):
                if x.startswith('self.') or x.startswith('ret:') or \
                        x in ('self', 'cls'):
                    ok = False
                elif x.isidentifier() and x not in params and \
                        x not in local and x not in _BUILTINS and \
                        x not in ('isinstance', 'list', 'dict', 'len'):
                    ok = False
            self._argonly[k] = ok
        return self._argonly[k]

    def _callee(self, f, call):
        fn = call.func
        if not isinstance(fn, ast.Attribute):
            return None
        v = fn.value
        is_self = isinstance(v, ast.Name) and v.id == 'self'
        is_super = isinstance(v, ast.Call) and isinstance(v.func, ast.Name) \
            and v.func.id == 'super'
        if not (is_self or is_super):
            return None
        g = self.prog.resolve_call(f, call, self.cls)
        if g is None or g.cls is None:
            return None
        return g

    # --------------------------------------------------------------------------
    # expressions
    def ev(self, f, e, env):
        k = _key_of(e)
        if k is not None:
            if k in env:
                if isinstance(env[k], Alias):
                    return env.get(deref(env, k), UNK)
                return env[k]
            if k in self.inputs:
                return self.inputs[k]
        if isinstance(e, ast.Constant):
            return e.value
        if isinstance(e, (ast.Name, ast.Attribute)):
            if isinstance(e, ast.Name) and (e.id in f.params or
                                            e.id in ('self', 'cls')):
                return UNK
            v = self.prog.fold(f.module, e, f.cls)
            if v is UNK and self.symbolic and k is not None and \
                    k.startswith('self.') and k.count('.') == 1:
                return Sym(k)
            return v
        if isinstance(e, (ast.Tuple, ast.List)):
            vals = [self.ev(f, x, env) for x in e.elts
                    if not isinstance(x, ast.Starred)]
            if len(vals) != len(e.elts):
                return UNK
            return tuple(vals) if isinstance(e, ast.Tuple) else vals
        if isinstance(e, ast.Dict):
            out = {}
            for kk, vv in zip(e.keys, e.values):
                if kk is None:
                    return UNK
                kv = self.ev(f, kk, env)
                if kv is UNK:
                    return UNK
                try:
                    out[kv] = self.ev(f, vv, env)
                except TypeError:
                    return UNK
            return out
        if isinstance(e, ast.Compare):
            left = self.ev(f, e.left, env)
            res = True
            for op, r in zip(e.ops, e.comparators):
                right = self.ev(f, r, env)
                c = self._cmp(op, left, right)
                if c is UNK:
                    return UNK
                if not c:
                    res = False
                left = right
            return res
        if isinstance(e, ast.BoolOp):
            last = UNK
            for x in e.values:
                last = self.ev(f, x, env)
                t = truth(last)
                if t is None:
                    return UNK
                if isinstance(e.op, ast.And) and not t:
                    return last
                if isinstance(e.op, ast.Or) and t:
                    return last
            return last
        if isinstance(e, ast.UnaryOp):
            v = self.ev(f, e.operand, env)
            if isinstance(e.op, ast.Not):
                t = truth(v)
                return UNK if t is None else (not t)
            if isinstance(e.op, ast.USub) and isinstance(v, (int, float)):
                return -v
            return UNK
        if isinstance(e, ast.IfExp):
            t = truth(self.ev(f, e.test, env))
            if t is None:
                a, b = self.ev(f, e.body, env), self.ev(f, e.orelse, env)
                return a if (a is not UNK and a == b) else UNK
            return self.ev(f, e.body if t else e.orelse, env)
        if isinstance(e, ast.BinOp):
            l, r = unsym(self.ev(f, e.left, env)), \
                unsym(self.ev(f, e.right, env))
            if l is UNK or r is UNK or (isinstance(r, tuple) and
                                        any(x is UNK or isinstance(x, Sym)
                                            for x in r)):
                return UNK
            try:
                if isinstance(e.op, ast.Mod):
                    return l % r
                if isinstance(e.op, ast.Add):
                    return l + r
                if isinstance(e.op, ast.Sub):
                    return l - r
                if isinstance(e.op, ast.Mult):
                    return l * r
            except Exception:
                return UNK
            return UNK
        if isinstance(e, ast.JoinedStr):
            out = ''
            for p in e.values:
                if isinstance(p, ast.Constant):
                    out += str(p.value)
                elif isinstance(p, ast.FormattedValue) and p.format_spec is None \
                        and p.conversion == -1:
                    v = unsym(self.ev(f, p.value, env))
                    if v is UNK:
                        return UNK
                    out += str(v)
                else:
                    return UNK
            return out
        if isinstance(e, ast.Subscript):
            base = self.ev(f, e.value, env)
            if isinstance(e.slice, ast.Slice):
                # slice of a known sequence with known integer bounds
                if not isinstance(base, (list, tuple, str)):
                    return UNK
                parts = []
                for p in (e.slice.lower, e.slice.upper, e.slice.step):
                    pv = None if p is None else unsym(self.ev(f, p, env))
                    if pv is not None and (pv is UNK or isinstance(pv, bool)
                                           or not isinstance(pv, int)):
                        return UNK
                    parts.append(pv)
                try:
                    return base[slice(*parts)]
                except Exception:
                    return UNK
            idx = self.ev(f, e.slice, env)
            if base is UNK or idx is UNK:
                return UNK
            try:
                return base[idx]
            except Exception:
                return UNK
        if isinstance(e, ast.Call):
            return self._call(f, e, env)
        if isinstance(e, (ast.ListComp, ast.GeneratorExp)) and \
                len(e.generators) == 1:
            gen = e.generators[0]
            seq = self.ev(f, gen.iter, env)
            if isinstance(seq, dict):
                seq = list(seq)
            if not isinstance(seq, (list, tuple)) or len(seq) > MAX_UNROLL \
                    or any(x is UNK for x in seq):
                return UNK
            out = []
            for x in seq:
                e2 = dict(env)
                self.assign(f, gen.target, x, e2)
                keep = True
                for cond in gen.ifs:
                    t = truth(self.ev(f, cond, e2))
                    if t is None:
                        return UNK
                    keep = keep and t
                if keep:
                    out.append(self.ev(f, e.elt, e2))
            return out
        return UNK

    @staticmethod
    def _cmp(op, l, r):
        if isinstance(l, Sym) or isinstance(r, Sym):
            # a symbolic value is only known to equal itself
            if l is UNK or r is UNK:
                return UNK
            if isinstance(op, (ast.Eq, ast.Is)):
                return True if l == r else UNK
            if isinstance(op, (ast.NotEq, ast.IsNot)):
                return False if l == r else UNK
            if isinstance(op, (ast.In, ast.NotIn)) and \
                    isinstance(r, (list, tuple, set)):
                if any(x is not UNK and x == l for x in r):
                    return isinstance(op, ast.In)
            return UNK
        if isinstance(op, (ast.Is, ast.IsNot)):
            if l is UNK or r is UNK:
                return UNK
            same = (l is r) or (type(l) is type(r) and l == r)
            return same if isinstance(op, ast.Is) else not same
        if isinstance(op, (ast.In, ast.NotIn)):
            if r is UNK or l is UNK or not isinstance(r, (list, tuple, dict,
                                                          str, set)):
                return UNK
            try:
                if isinstance(r, str):
                    hit = isinstance(l, str) and l in r
                elif isinstance(r, dict):
                    hit = l in r
                else:
                    hit = any(x is not UNK and x == l for x in r)
                    if not hit and any(x is UNK or isinstance(x, Sym)
                                       for x in r):
                        return UNK
            except Exception:
                return UNK
            return hit if isinstance(op, ast.In) else not hit
        if l is UNK or r is UNK:
            return UNK
        try:
            if isinstance(op, ast.Eq):
                return l == r
            if isinstance(op, ast.NotEq):
                return l != r
            if isinstance(op, ast.Lt):
                return l < r
            if isinstance(op, ast.LtE):
                return l <= r
            if isinstance(op, ast.Gt):
                return l > r
            if isinstance(op, ast.GtE):
                return l >= r
        except Exception:
            return UNK
        return UNK

    def _call(self, f, c, env):
        fn = c.func
        if isinstance(fn, ast.Attribute) and fn.attr in ('setdefault', 'pop') \
                and c.args and not c.keywords and len(c.args) <= 2:
            base = self.ev(f, fn.value, env)
            kv = self.ev(f, c.args[0], env)
            if isinstance(base, dict) and kv is not UNK:
                dflt = self.ev(f, c.args[1], env) if len(c.args) == 2 \
                    else None
                try:
                    if fn.attr == 'pop' and len(c.args) == 1 and \
                            kv not in base:
                        return UNK
                    return base.get(kv, dflt)
                except TypeError:
                    return UNK
            return UNK
        if isinstance(fn, ast.Attribute) and fn.attr == 'get' and c.args \
                and not c.keywords and len(c.args) <= 2:
            kv = self.ev(f, c.args[0], env)
            dflt = self.ev(f, c.args[1], env) if len(c.args) == 2 else None
            bk = _key_of(fn.value)
            if bk is not None and kv is not UNK and \
                    isinstance(kv, (str, int)):
                k = '%s[%r]' % (bk, kv)
                if k in env:
                    return env[k]
                if k in self.inputs:
                    return self.inputs[k]
            base = self.ev(f, fn.value, env)
            if isinstance(base, dict) and kv is not UNK:
                try:
                    return base.get(kv, dflt)
                except TypeError:
                    return UNK
            return UNK
        if isinstance(fn, ast.Name) and fn.id == 'dict' and c.keywords and \
                len(c.args) <= 1 and all(k.arg for k in c.keywords) and \
                not any(isinstance(a, ast.Starred) for a in c.args):
            # dict(<mapping>, key=value, ..): a copy with entries added
            out = {}
            if c.args:
                base = self.ev(f, c.args[0], env)
                if not isinstance(base, dict):
                    return UNK
                out = dict(base)
            for k in c.keywords:
                out[k.arg] = self.ev(f, k.value, env)
            return out
        if isinstance(fn, ast.Name) and fn.id in _BUILTINS and \
                not c.keywords:
            args = [unsym(self.ev(f, a, env)) for a in c.args]
            if any(a is UNK for a in args):
                return UNK
            try:
                return _BUILTINS[fn.id](*args)
            except Exception:
                return UNK
        if isinstance(fn, ast.Attribute) and fn.attr in ('strip', 'lower',
                                                         'upper') \
                and not c.args and not c.keywords:
            base = self.ev(f, fn.value, env)
            if isinstance(base, str):
                return getattr(base, fn.attr)()
        if isinstance(fn, ast.Attribute) and fn.attr in ('items', 'keys',
                                                         'values') \
                and not c.args and not c.keywords:
            base = self.ev(f, fn.value, env)
            if isinstance(base, dict):
                if fn.attr == 'items':
                    return [tuple(kv) for kv in base.items()]
                return list(getattr(base, fn.attr)())
        if isinstance(fn, ast.Name) and fn.id == 'isinstance' and \
                len(c.args) == 2 and isinstance(c.args[1], ast.Name) and \
                c.args[1].id in _TYPES:
            v = self.ev(f, c.args[0], env)
            if v is UNK or isinstance(v, Sym):
                return UNK
            return isinstance(v, _TYPES[c.args[1].id])
        if call_name(c).split('.')[-1] == 'as_list' and len(c.args) == 1 \
                and not c.keywords:
            v = self.ev(f, c.args[0], env)
            if v is UNK or isinstance(v, Sym):
                return UNK
            if v is None:
                return []
            return list(v) if isinstance(v, (list, tuple)) else [v]
        # resolved callee of the package: evaluate it on these arguments
        g = self._callee_any(f, c)
        if g is not None and self._evdepth < 3:
            return self._call_value(f, c, g, env)
        return UNK

    def _callee_any(self, f, call):
        try:
            g = self.prog.resolve_call(f, call, self.cls if f.cls else None)
        except Exception:
            return None
        if g is None or g.node is f.node:
            return None
        n = sum(1 for x in ast.walk(g.node) if isinstance(x, ast.stmt))
        if n > MAX_CALLEE_STMTS or isinstance(g.node, ast.AsyncFunctionDef):
            return None
        if any(isinstance(x, (ast.Yield, ast.YieldFrom))
               for x in ast.walk(g.node)):
            return None
        return g

    def _bind(self, f, call, g, env):
        """callee environment: self.* / path markers of the caller plus the
        parameters bound to the evaluated arguments / defaults"""
        cenv = {k: v for k, v in env.items()
                if k.startswith('self.') or k in ('@c', '@h')}
        a = g.node.args
        pos = [x.arg for x in a.posonlyargs + a.args]
        if g.cls is not None and pos and pos[0] in ('self', 'cls') and \
                not any(unparse(d) == 'staticmethod'
                        for d in g.node.decorator_list):
            pos = pos[1:]
        names = pos + [x.arg for x in a.kwonlyargs]
        dfl = dict(zip(reversed([x.arg for x in a.posonlyargs + a.args]),
                       reversed(a.defaults)))
        for x, d in zip(a.kwonlyargs, a.kw_defaults):
            if d is not None:
                dfl[x.arg] = d
        for pn in names:
            cenv[pn] = self.ev(g, dfl[pn], {}) if pn in dfl else UNK
        for i, x in enumerate(call.args):
            if i < len(pos) and not isinstance(x, ast.Starred):
                cenv[pos[i]] = self.ev(f, x, env)
        for kw in call.keywords:
            if kw.arg in names:
                cenv[kw.arg] = self.ev(f, kw.value, env)
        if a.vararg:
            cenv[a.vararg.arg] = UNK
        if a.kwarg:
            cenv[a.kwarg.arg] = UNK
        return cenv

    def _call_value(self, f, call, g, env):
        """value returned by resolved callee g, if it is the same on every
        path that is feasible for these arguments"""
        cenv = self._bind(f, call, g, env)
        self._evdepth += 1
        obs, self.observe = self.observe, None
        try:
            exits = self.run(g, cenv, depth=0, inlined=True)
        finally:
            self._evdepth -= 1
            self.observe = obs
        rets = {dict(fe).get('@ret', None) for fe in exits}
        if len(rets) != 1:
            return UNK
        return thaw(list(rets)[0])

    # --------------------------------------------------------------------------
    # statements
    def assign(self, f, target, v, env, stmt=None):
        if isinstance(target, (ast.Tuple, ast.List)):
            if isinstance(v, (tuple, list)) and len(v) == len(target.elts):
                for t, x in zip(target.elts, v):
                    self.assign(f, t, x, env, stmt)
            else:
                for t in target.elts:
                    self.assign(f, t, UNK, env, stmt)
            return
        if isinstance(target, ast.Starred):
            return self.assign(f, target.value, UNK, env, stmt)
        k = _key_of(target)
        if k is None:
            # store through a computed index: everything below the base is
            # unknown from now on
            b = target
            while isinstance(b, (ast.Subscript,)):
                b = b.value
            bk = _key_of(b)
            if bk is not None:
                self._kill(env, bk, keep_self=False)
                env[bk] = UNK
            return
        self._kill(env, k, keep_self=False)
        # a constant-key store into a known dict value updates that value
        # (the dict is the single source of truth for its items)
        if isinstance(target, ast.Subscript):
            bk = deref(env, _key_of(target.value))
            if bk in env and isinstance(env[bk], dict):
                d = dict(env[bk])
                d[target.slice.value] = v
                env[bk] = d
                return
        env[k] = v
        if k in self.track and stmt is not None:
            env[k + '@'] = '%s: `%s`' % (f.qual, short(stmt, 60))

    @staticmethod
    def _kill(env, k, keep_self=True):
        for x in list(env):
            if x.startswith(k + '[') or x.startswith(k + '.'):
                del env[x]
        if not keep_self:
            env.pop(k, None)

    def effects(self, f, node, edge, env, depth):
        """environments after node's effect took place (list: a resolved self
        call may have several outcomes)"""
        env = dict(env)
        a = node.ast
        if node.kind == 'for':
            if edge.label == 'iter':
                self.assign(f, a.target, UNK, env)
            return [env]
        if node.kind == 'with':
            for it in a.items:
                if it.optional_vars is not None:
                    self.assign(f, it.optional_vars, UNK, env)
            return [env]
        if node.kind == 'handler':
            if a.name:
                env[a.name] = UNK
            # path marker: line numbers of the except clauses passed
            env['@h'] = tuple(sorted(set(env.get('@h', ())) | {a.lineno}))
            return [env]
        if node.kind != 'stmt' or a is None:
            return [env]
        envs = [env]
        # resolved self calls which may write tracked state are inlined first
        if self.track and not isinstance(a, (ast.FunctionDef, ast.ClassDef,
                                             ast.AsyncFunctionDef)):
            for c in calls_in(a):
                g = self._callee(f, c)
                if g is None:
                    if isinstance(c.func, ast.Attribute) and \
                            isinstance(c.func.value, ast.Name) and \
                            c.func.value.id == 'self':
                        self.unresolved += 1
                    continue
                if not self.may_write(g):
                    continue
                nxt = []
                for e1 in envs:
                    nxt += self._inline(f, c, g, e1, depth)
                envs = nxt
        out = []
        for env in envs:
            post = self._arg_mutations(f, a, env)
            if isinstance(a, ast.Assign):
                v = self.ev(f, a.value, env)
                env.update(post)
                post = {}
                self._dict_mutations(f, a.value, env)
                ref = self.ref_of(f, a.value, env)
                for t in a.targets:
                    if ref is not None and isinstance(t, ast.Name) and \
                            t.id != ref:
                        self._kill(env, t.id, keep_self=False)
                        env[t.id] = Alias(ref)
                    else:
                        self.assign(f, t, v, env, a)
            elif isinstance(a, ast.AnnAssign) and a.value is not None:
                self.assign(f, a.target, self.ev(f, a.value, env), env, a)
            elif isinstance(a, ast.AugAssign):
                self.assign(f, a.target, UNK, env, a)
            elif isinstance(a, ast.Delete):
                for t in a.targets:
                    k = _key_of(t)
                    if k:
                        self._kill(env, k, keep_self=False)
                    if isinstance(t, ast.Subscript) and \
                            isinstance(t.slice, ast.Constant):
                        bk = _key_of(t.value)
                        if bk in env and isinstance(env[bk], dict):
                            d = dict(env[bk])
                            d.pop(t.slice.value, None)
                            env[bk] = d
                    if isinstance(t, ast.Subscript) and \
                            isinstance(t.slice, ast.Slice):
                        # `del xs[a:b]` on a known list: the list without
                        # that slice (unknown bounds: unknown list)
                        bk = deref(env, _key_of(t.value))
                        if bk in env and isinstance(env[bk], list):
                            parts = []
                            for p in (t.slice.lower, t.slice.upper,
                                      t.slice.step):
                                pv = None if p is None else \
                                    unsym(self.ev(f, p, env))
                                if pv is not None and (
                                        pv is UNK or isinstance(pv, bool) or
                                        not isinstance(pv, int)):
                                    parts = None
                                    break
                                parts.append(pv)
                            if parts is None:
                                env[bk] = UNK
                            else:
                                lst = list(env[bk])
                                try:
                                    del lst[slice(*parts)]
                                    env[bk] = lst
                                except Exception:
                                    env[bk] = UNK
            elif isinstance(a, ast.Return):
                env['@ret'] = None if a.value is None else \
                    self.ev(f, a.value, env)
            elif isinstance(a, ast.Expr) and isinstance(a.value, ast.Call) \
                    and isinstance(a.value.func, ast.Attribute) and \
                    a.value.func.attr in I.MUTATING:
                c = a.value
                k = deref(env, _key_of(c.func.value))
                if k and c.func.attr == 'append' and len(c.args) == 1 and \
                        isinstance(env.get(k), list) and \
                        all('@L%d' % h in env for h in node.loops):
                    # (inside a loop of unknown length the list would grow
                    # without bound: it becomes unknown instead)
                    env[k] = list(env[k]) + [self.ev(f, c.args[0], env)]
                elif k and isinstance(env.get(k), dict) and \
                        self._dict_mutations(f, c, env):
                    pass
                elif k:
                    self._kill(env, k, keep_self=False)
                    env[k] = UNK
            env.update(post)
            out.append(env)
        return out

    def _arg_mutations(self, f, stmt, env):
        """dict valued variables passed by name to a resolved callee of the
        package are passed by reference: {name: dict after the call} when
        every exit of the callee agrees on it"""
        post = {}
        if self._evdepth >= 3 or isinstance(stmt, (ast.FunctionDef,
                                                   ast.ClassDef)):
            return post
        for c in calls_in(stmt):
            cand = [(i, x.id) for i, x in enumerate(c.args)
                    if isinstance(x, ast.Name) and
                    isinstance(env.get(x.id), dict)]
            if not cand:
                continue
            g = self._callee_any(f, c)
            if g is None:
                continue
            a = g.node.args
            pos = [x.arg for x in a.posonlyargs + a.args]
            if g.cls is not None and pos and pos[0] in ('self', 'cls'):
                pos = pos[1:]
            cenv = self._bind(f, c, g, env)
            self._evdepth += 1
            obs, self.observe = self.observe, None
            try:
                exits = self.run(g, cenv, depth=0, inlined=True)
            finally:
                self._evdepth -= 1
                self.observe = obs
            for i, name in cand:
                if i >= len(pos):
                    continue
                finals = {freeze(thaw(dict(fe).get(pos[i], UNK)))
                          for fe in exits}
                if len(finals) == 1:
                    v = thaw(list(finals)[0])
                    post[name] = v if isinstance(v, dict) else UNK
                elif finals:
                    post[name] = UNK
        return post

    def ref_of(self, f, e, env):
        """name of the list / dict variable the expression denotes (by
        reference), or None"""
        if isinstance(e, ast.Name):
            k = deref(env, e.id)
            return k if isinstance(env.get(k), (list, dict)) else None
        if isinstance(e, ast.IfExp):
            t = truth(self.ev(f, e.test, env))
            if t is None:
                return None
            return self.ref_of(f, e.body if t else e.orelse, env)
        return None

    def _dict_mutations(self, f, expr, env):
        """apply setdefault / pop / update calls on dict valued variables
        occurring in expr (their value was already computed with get
        semantics); True if something was applied"""
        done = False
        for c in calls_in(expr):
            if not (isinstance(c.func, ast.Attribute) and
                    c.func.attr in ('setdefault', 'pop', 'update') and
                    c.args and not c.keywords):
                continue
            k = deref(env, _key_of(c.func.value))
            if k is None or not isinstance(env.get(k), dict):
                continue
            d = dict(env[k])
            a0 = self.ev(f, c.args[0], env)
            try:
                if c.func.attr == 'setdefault' and len(c.args) <= 2 and \
                        a0 is not UNK:
                    d.setdefault(a0, self.ev(f, c.args[1], env)
                                 if len(c.args) == 2 else None)
                elif c.func.attr == 'pop' and a0 is not UNK:
                    d.pop(a0, None)
                elif c.func.attr == 'update' and isinstance(a0, dict) and \
                        len(c.args) == 1:
                    d.update(a0)
                else:
                    env[k] = UNK
                    done = True
                    continue
            except TypeError:
                env[k] = UNK
                done = True
                continue
            env[k] = d
            done = True
        return done

    def _inline(self, f, call, g, env, depth):
        if depth <= 0:
            for k in self.track:
                env = dict(env)
                env[k] = UNK
            return [env]
        cenv = self._bind(f, call, g, env)
        exits = self.run(g, cenv, depth=depth - 1, inlined=True)
        out = []
        for fe in exits:
            ce = dict(fe)
            e2 = {k: v for k, v in env.items()
                  if not (k.startswith('self.') or k in ('@c', '@h'))}
            e2.update({k: thaw(v) for k, v in ce.items()
                       if k.startswith('self.') or k in ('@c', '@h')})
            out.append(e2)
        # no exit: the callee never returns normally on this input
        return out

    # --------------------------------------------------------------------------
    def run(self, f, env, depth=None, start=None, inlined=False):
        """frozen environments at the normal exit of f"""
        depth = self.depth if depth is None else depth
        g = cfg_of(f)
        fe0 = self._fz(env)
        todo = [(g.entry.id if start is None else start, fe0)]
        seen = set()
        exits = set()
        outer_fault = self._fault      # (run of a callee inside an expression)
        while todo:
            nid, fe = todo.pop()
            if (nid, fe) in seen:
                continue
            seen.add((nid, fe))
            self.states += 1
            if self.states > self.max:
                raise AnalysisError('value interpretation of %s exceeds %d '
                                    'states' % (f.where, self.max))
            if nid == g.exit.id:
                exits.add(fe)
                continue
            if nid == g.raise_.id:
                continue
            node = g.nodes[nid]
            env = {k: thaw(v) for k, v in fe}
            allowed = None
            self._fault = None
            if node.kind == 'test':
                t = truth(self.ev(f, node.ast, env))
                if t is not None:
                    allowed = 'T' if t else 'F'
                elif not (inlined and self.arg_only(f, node.ast)) and \
                        not env.get('@c'):
                    # path marker: an undecided test that is not a function
                    # of the arguments of an inlined call was passed
                    env['@c'] = True
                    fe = self._fz(env)
            forced = None
            if node.kind == 'for':
                lk = '@L%d' % nid
                if lk in env:
                    seq, idx = env[lk]
                else:
                    seq, idx = self.ev(f, node.ast.iter, env), 0
                    if isinstance(seq, dict):
                        seq = list(seq)
                    if not isinstance(seq, (list, tuple)) or \
                            len(seq) > MAX_UNROLL:
                        seq = None
                if seq is not None:
                    # concrete iteration over a known sequence
                    if idx < len(seq):
                        allowed = 'iter'
                        forced = seq[idx]
                        env[lk] = (list(seq), idx + 1)
                    else:
                        allowed = 'done'
                        env.pop(lk, None)
            observed = False
            cache = {}
            raised = self._fault        # the test / the iterable raised
            if raised is not None:
                self._fault = None
                self.fault_at(f, g, node, env, raised)
            for e in g.succ[nid]:
                if e.label == 'exc':
                    todo.append((e.dst, fe))
                    continue
                if raised is not None:
                    continue
                if allowed is not None and e.label in ('T', 'F', 'iter',
                                                       'done') and \
                        e.label != allowed:
                    continue
                if not observed and self.observe is not None:
                    observed = True
                    self.observe(f, node, env)
                ck = e.label if node.kind == 'for' else ''
                if ck not in cache:
                    outs = self.effects(f, node, e, env, depth)
                    if self._fault is not None:
                        # the statement raised: it has no normal continuation
                        what, self._fault = self._fault, None
                        self.fault_at(f, g, node, env, what)
                        outs = []
                    if forced is not None and e.label == 'iter':
                        for x in outs:
                            self.assign(f, node.ast.target, forced, x)
                    cache[ck] = outs
                for x in cache[ck]:
                    dn = g.nodes[e.dst]
                    if dn.kind == 'for' and not e.back and \
                            '@L%d' % e.dst in x:
                        x = dict(x)
                        del x['@L%d' % e.dst]   # stale state of a left loop
                    todo.append((e.dst, self._fz(x)))
        self._fault = outer_fault
        return exits

    @staticmethod
    def _fz(env):
        return tuple(sorted(((k, freeze(v)) for k, v in env.items()),
                            key=lambda kv: kv[0]))


# ------------------------------------------------------------------------------
# R14.1  state table and progress function
#
def r14_1(prog, rep, rid='R14.1'):
    rep.rule(rid, 'pilot state table: None=-1, non-final states unique and '
             'contiguous from NEW=0 in pipeline order, the finals share the '
             'maximum; _pilot_state_inv inverts it; _pilot_state_progress '
             'returns a non-empty passed list only for cur < tgt, made of the '
             'states in (cur, tgt]', minimum=12)
    m = prog.module(STATES)
    tab = prog.const(STATES, '_pilot_state_values')
    final = prog.const(STATES, 'FINAL')
    new = prog.const(STATES, 'NEW')
    W = '%s::_pilot_state_values' % STATES
    loc = '%s/%s' % ('src/radical/pilot', STATES)
    if not isinstance(tab, dict) or not isinstance(final, list):
        raise AnalysisError('R14.1: _pilot_state_values / FINAL do not fold')
    nonfinal = {k: v for k, v in tab.items() if k is not None and
                k not in final}
    n = len(nonfinal)
    rep.check(tab.get(None, 0) == -1, rid, W, 'None maps to -1',
              construct='None', message='_pilot_state_values[None] is %r, not '
              '-1: a pilot without state does not sort before NEW'
              % (tab.get(None),), loc=loc,
              history='first notification for a fresh pilot record')
    rep.check(tab.get(new) == 0, rid, W, 'NEW maps to 0', construct='NEW',
              message='NEW does not have the value 0 (%r): the replay range '
              'range(cur + 1, tgt) starts at the wrong state'
              % (tab.get(new),), loc=loc,
              history='pilot in NEW receives PMGR_ACTIVE: the replayed list '
              'is not the pipeline prefix')
    vals = sorted(nonfinal.values())
    rep.check(vals == list(range(n)), rid, W,
              'non-final states carry the values 0..%d exactly once' % (n - 1),
              construct='non-final values',
              message='non-final pilot states are not unique and contiguous: '
              '%s - _pilot_state_inv[i] is missing or ambiguous for some i'
              % sorted(nonfinal.items(), key=lambda kv: kv[1]), loc=loc,
              history='a notification that skips states: the replay loop '
              'raises KeyError or replays the wrong state')
    fv = {tab.get(s) for s in final}
    rep.check(len(fv) == 1 and None not in fv and all(
        v < list(fv)[0] for v in nonfinal.values()) and list(fv)[0] == n,
        rid, W, 'DONE/FAILED/CANCELED share the maximum value %d' % n,
        construct='final values',
        message='final states do not share the single maximum value '
        '(finals %s, non-final max %s): a final state can be left for '
        'another state or a non-final state sorts after a final one'
        % (sorted((s, tab.get(s)) for s in final), max(vals or [0])),
        loc=loc, history='pilot is DONE, a late PMGR_ACTIVE notification '
        'arrives: cur >= tgt does not hold and the state goes back')
    # pipeline order from the code: X_PENDING directly precedes X
    names = {}
    for name in m.assigns:
        v = prog.fold(m, ast.Name(id=name, ctx=ast.Load()))
        if isinstance(v, str) and v in nonfinal and name.startswith('PMGR_'):
            names[name] = v
    npairs = 0
    for name, v in sorted(names.items()):
        if name.endswith('_PENDING') and name[:-8] in names:
            npairs += 1
            w = names[name[:-8]]
            rep.check(tab[v] + 1 == tab[w], rid, W,
                      '%s directly precedes %s' % (v, w), construct=name,
                      message='%s (%r) does not directly precede %s (%r) in '
                      'the pilot state table although the component that '
                      'owns %s takes pilots from its pending state'
                      % (v, tab[v], w, tab[w], w), loc=loc,
                      history='pilot advances %s -> %s: the second '
                      'notification is discarded as "no progress" or replays '
                      'foreign states' % (v, w))
    if npairs < 2:
        raise AnalysisError('R14.1: fewer than 2 PMGR_*_PENDING/PMGR_* pairs')
    # the launcher hands pilots on as LAUNCHING before ACTIVE_PENDING
    lw = prog.method(LAUNCH[0], LAUNCH[1], 'work')
    rep.saw(lw)
    g = cfg_of(lw)
    smap = I.stmt_node_map(g)
    sites = {}
    for c in calls_in(lw.node):
        if I.is_handon(c):
            s = I.handon_state(prog, lw, c)
            if isinstance(s, str) and s in nonfinal:
                sites.setdefault(s, []).append(smap[id(c)].id)
    if len(sites) < 2:
        raise AnalysisError('R14.1: %s does not hand pilots on in two '
                            'non-final states' % lw.where)
    order = sorted(sites, key=lambda s: tab[s])
    for a, b in zip(order, order[1:]):
        code_order = all(must_pass(g, g.entry.id, nb, sites[a])
                         for nb in sites[b])
        rev_order = all(must_pass(g, g.entry.id, na, sites[b])
                        for na in sites[a])
        if not code_order and not rev_order:
            raise AnalysisError('UNRECOGNISED-IDIOM %s: hand-ons %s / %s are '
                                'not ordered by dominance' % (lw.where, a, b))
        rep.check(code_order, rid, W, 'launcher hands on %s before %s and the '
                  'table orders them the same way' % (a, b),
                  construct='%s<%s' % (a, b),
                  message='%s advances pilots to %s before %s but the table '
                  'orders %s (%d) before %s (%d)' % (lw.qual, b, a, a, tab[a],
                                                     b, tab[b]), loc=loc,
                  history='normal launch: the %s notification is discarded '
                  'because the pilot already "passed" it' % a)
    # initial state of the facade, last non-final published by the agent
    pinit = prog.method(PILOT[0], PILOT[1], '__init__')
    init_vals = [prog.fold(pinit.module, s.value) for k, t, s in
                 I.stores(pinit.node) if unparse(t) == 'self._state' and
                 k == 'assign']
    rep.check(init_vals == [new], rid, pinit, 'Pilot starts in NEW',
              construct='self._state', message='Pilot.__init__ does not '
              'initialise self._state with rps.NEW (%r)' % (init_vals,),
              loc=pinit.loc(), history='first notification of a new pilot')
    ainit = prog.method(AGENT[0], AGENT[1], 'initialize')
    pub = None
    for d in walk(ainit.node):
        if isinstance(d, ast.Dict):
            kv = {k.value: v for k, v in zip(d.keys, d.values)
                  if isinstance(k, ast.Constant)}
            if 'type' in kv and prog.fold(ainit.module, kv['type']) == 'pilot' \
                    and 'state' in kv:
                pub = prog.fold(ainit.module, kv['state'])
    if pub is UNK or pub is None:
        raise AnalysisError('R14.1: pilot record published by %s not found'
                            % ainit.where)
    rep.check(pub in nonfinal and tab[pub] == n - 1, rid, W,
              'the state the agent publishes at start-up (%s) is the last '
              'non-final state' % pub, construct='agent start state',
              message='Agent_0.initialize publishes %s which is not the '
              'highest non-final state of the table' % pub, loc=loc,
              history='agent comes up: launcher states that arrive later '
              'are applied after PMGR_ACTIVE or PMGR_ACTIVE is discarded')
    inv = _r14_1_inv(prog, rep, rid, m, tab, n, loc)
    if not _progress_by_value(prog, rep, rid, tab, inv, final):
        _r14_1_progress(prog, rep, rid)


def _r14_1_inv(prog, rep, rid, m, tab, n, loc):
    W = '%s::_pilot_state_inv' % STATES
    exprs = m.assigns.get('_pilot_state_inv')
    if not exprs or len(exprs) != 1:
        raise AnalysisError('anchor constant %s not found / ambiguous' % W)
    e = exprs[0]
    inv = None
    if isinstance(e, ast.DictComp) and len(e.generators) == 1:
        gen = e.generators[0]
        it = gen.iter
        if isinstance(it, ast.Call) and isinstance(it.func, ast.Attribute) \
                and it.func.attr == 'items' and \
                unparse(it.func.value) == '_pilot_state_values' and \
                isinstance(gen.target, ast.Tuple) and \
                len(gen.target.elts) == 2 and not gen.ifs:
            kn, vn = [unparse(x) for x in gen.target.elts]
            if unparse(e.key) == vn and unparse(e.value) == kn:
                inv = {}
                for k, v in tab.items():
                    inv[v] = k
            elif unparse(e.key) == kn and unparse(e.value) == vn:
                inv = dict(tab)
    else:
        v = prog.fold(m, e)
        if isinstance(v, dict):
            inv = v
    if inv is None:
        raise AnalysisError('UNRECOGNISED-IDIOM %s: neither a literal nor the '
                            'inversion comprehension of _pilot_state_values'
                            % W)
    good = all(i in inv and tab.get(inv[i], None) == i for i in range(n))
    rep.check(good, rid, W, '_pilot_state_inv maps 0..%d back to the state '
              'with that value' % (n - 1), construct='_pilot_state_inv',
              message='_pilot_state_inv is not the inverse of '
              '_pilot_state_values on the non-final values 0..%d' % (n - 1),
              loc=loc, history='a notification that skips states replays '
              'the wrong intermediate states')
    return inv


def _progress_by_value(prog, rep, rid, tab, inv, final):
    """evaluate _pilot_state_progress for every (current, target) pair of the
    table and compare the passed list with the specification; False if the
    function cannot be evaluated (the structural check decides then)"""
    f = prog.function(STATES, '_pilot_state_progress')
    params = f.params
    if len(params) != 3:
        return False
    rep.saw(f)
    ip = Interp(prog, None, inputs={'_pilot_state_inv': inv},
                max_states=200000)
    verdict = {}
    for cur in tab:
        bad = None
        for tgt in tab:
            exits = ip.run(f, {params[0]: 'pilot.0000', params[1]: cur,
                               params[2]: tgt})
            rets = {fe_ret for fe_ret in
                    (dict(fe).get('@ret', UNK) for fe in exits)}
            progress = tab[cur] < tab[tgt]
            want = [] if not progress else \
                [inv.get(i, '<no state with value %d>' % i)
                 for i in range(tab[cur] + 1, tab[tgt])] + [tgt]
            if not rets:
                # raises: accepted only for contradicting final states
                if not (cur in final and tgt in final and cur != tgt):
                    bad = bad or (tgt, 'raises', want)
                continue
            for r in rets:
                r = thaw(r)
                if r is UNK or not isinstance(r, (list, tuple)) or \
                        len(r) != 2 or not isinstance(r[1], list) or \
                        any(x is UNK or isinstance(x, Sym) for x in r[1]):
                    return False
                if r[1] != want or (progress and r[0] != tgt):
                    bad = bad or (tgt, 'returns %r' % (tuple(r),), want)
        verdict[cur] = bad
    rep.stat('interp_states', ip.states)
    for cur in tab:
        bad = verdict[cur]
        rep.check(bad is None, rid, f, 'progress from %s: passed list is '
                  'empty unless the target is ahead, and then holds exactly '
                  'the states in (current, target]' % cur,
                  construct='progress:%s' % cur,
                  message='%s(pid, %r, %r) %s; the passed list must be %r: '
                  'callbacks see a state that is not ahead of the current '
                  'one, a state twice, or miss one'
                  % ((f.qual, cur, bad[0], bad[1], bad[2]) if bad else
                     (f.qual, cur, None, '', [])), loc=f.loc(),
                  history='pilot in %s receives a notification for %s'
                  % (cur, bad[0] if bad else ''))
    return True


def _r14_1_progress(prog, rep, rid):
    f = prog.function(STATES, '_pilot_state_progress')
    rep.saw(f)
    g = cfg_of(f)
    smap = I.stmt_node_map(g)
    params = f.params
    if len(params) != 3:
        raise AnalysisError('UNRECOGNISED-IDIOM %s: expected (pid, current, '
                            'target)' % f.where)
    cur_p, tgt_p = params[1], params[2]
    # numeric locals: X = _pilot_state_values[param]
    num = {}
    for s in walk(f.node):
        if isinstance(s, ast.Assign) and len(s.targets) == 1 and \
                isinstance(s.targets[0], ast.Name) and \
                isinstance(s.value, ast.Subscript) and \
                unparse(s.value.value) == '_pilot_state_values' and \
                isinstance(s.value.slice, ast.Name):
            num[s.targets[0].id] = s.value.slice.id
    cur = [k for k, v in num.items() if v == cur_p]
    tgt = [k for k, v in num.items() if v == tgt_p]
    if len(cur) != 1 or len(tgt) != 1:
        raise AnalysisError('UNRECOGNISED-IDIOM %s: numeric values of current '
                            'and target are not bound to one local each'
                            % f.where)
    cur, tgt = cur[0], tgt[0]
    n_ret = 0
    for s in walk(f.node):
        if not isinstance(s, ast.Return):
            continue
        v = s.value
        if not isinstance(v, (ast.Tuple, ast.List)) or len(v.elts) != 2:
            raise AnalysisError('UNRECOGNISED-IDIOM %s: return value is not a '
                                '(state, passed) pair: %s' % (f.where,
                                                              short(s)))
        second = v.elts[1]
        empty = (isinstance(second, ast.List) and not second.elts) or \
            (isinstance(second, ast.Call) and call_name(second) == 'list'
             and not second.args)
        n_ret += 1
        if empty:
            rep.ok(rid, f, 'no-progress return carries an empty passed list: '
                   '%s' % short(s, 50), f.loc(s))
            continue
        if not isinstance(second, ast.Name):
            raise AnalysisError('UNRECOGNISED-IDIOM %s: passed list is not a '
                                'name: %s' % (f.where, short(s)))
        pname = second.id
        node = smap[id(s)]
        # (b) guard cur < tgt
        verdict = None
        for tid, lab in guards(g, node.id):
            a = g.nodes[tid].ast
            if not (isinstance(a, ast.Compare) and len(a.ops) == 1):
                continue
            l, r = unparse(a.left), unparse(a.comparators[0])
            if {l, r} != {cur, tgt}:
                continue
            op = type(a.ops[0])
            if l == tgt:      # normalise to cur OP tgt
                op = {ast.Lt: ast.Gt, ast.Gt: ast.Lt, ast.LtE: ast.GtE,
                      ast.GtE: ast.LtE}.get(op, op)
            strict_less = (op is ast.Lt and lab == 'T') or \
                          (op is ast.GtE and lab == 'F')
            verdict = 'ok' if strict_less else (verdict or 'wrong')
            gtest = a
        if verdict is None:
            rep.bad(rid, f, s, '%s returns a non-empty passed list on a path '
                    'that is not guarded by a comparison of the numeric '
                    'values of current and target' % f.qual, f.loc(s),
                    history='pilot is PMGR_ACTIVE, a late PMGR_LAUNCHING '
                    'notification arrives: the callbacks see PMGR_LAUNCHING '
                    'after PMGR_ACTIVE')
        else:
            rep.check(verdict == 'ok', rid, f, 'the passed list is returned '
                      'only when cur < tgt', construct=s,
                      message='%s: the progress branch is guarded by `%s` '
                      'with the wrong operator or polarity: a target that '
                      'is not ahead of the current state is replayed'
                      % (f.qual, short(gtest, 40)), loc=f.loc(s),
                      history='pilot is DONE (5); a late PMGR_ACTIVE (4) or a '
                      'duplicate notification is replayed to the callbacks')
        # (c) construction of the passed list
        _check_passed(prog, rep, rid, f, g, smap, pname, cur, tgt, tgt_p, node)
    if n_ret < 3:
        raise AnalysisError('R14.1: %s has only %d returns' % (f.where, n_ret))


def _check_passed(prog, rep, rid, f, g, smap, pname, cur, tgt, tgt_p, retnode):
    appends, inits = [], []
    for s in walk(f.node):
        if isinstance(s, ast.Assign) and any(
                isinstance(t, ast.Name) and t.id == pname for t in s.targets):
            inits.append(s)
        if isinstance(s, ast.Call) and call_name(s) == pname + '.append':
            appends.append(s)
    ok_init = len(inits) == 1 and (
        (isinstance(inits[0].value, ast.List) and not inits[0].value.elts) or
        (isinstance(inits[0].value, ast.Call) and
         call_name(inits[0].value) == 'list' and not inits[0].value.args))
    if not ok_init or len(appends) != 2:
        raise AnalysisError('UNRECOGNISED-IDIOM %s: the passed list %r is not '
                            'built by one empty initialisation and two '
                            'append sites' % (f.where, pname))
    loop_app = [a for a in appends if smap[id(a)].loops]
    tail_app = [a for a in appends if not smap[id(a)].loops]
    if len(loop_app) != 1 or len(tail_app) != 1:
        raise AnalysisError('UNRECOGNISED-IDIOM %s: expected one append in '
                            'the replay loop and one after it' % f.where)
    la, ta = loop_app[0], tail_app[0]
    head = g.nodes[smap[id(la)].loops[-1]]
    it = head.ast.iter if head.kind == 'for' else None
    if not (isinstance(it, ast.Call) and call_name(it) == 'range' and
            len(it.args) == 2 and isinstance(head.ast.target, ast.Name)):
        raise AnalysisError('UNRECOGNISED-IDIOM %s: replay loop is not `for i '
                            'in range(a, b)`' % f.where)
    lo, hi = it.args
    ivar = head.ast.target.id
    lo_ok = isinstance(lo, ast.BinOp) and isinstance(lo.op, ast.Add) and (
        (unparse(lo.left) == cur and prog.fold(f.module, lo.right) == 1) or
        (unparse(lo.right) == cur and prog.fold(f.module, lo.left) == 1))
    hi_ok = unparse(hi) == tgt
    rep.check(lo_ok and hi_ok, rid, f, 'intermediate states are those with '
              'values in range(cur + 1, tgt)', construct=head.ast.iter,
              message='%s: the replay loop iterates `%s` instead of '
              'range(%s + 1, %s): the current state is replayed again, or '
              'the target twice, or a state is skipped'
              % (f.qual, short(it, 40), cur, tgt), loc=f.loc(head.ast),
              history='pilot in PMGR_LAUNCHING (2) receives PMGR_ACTIVE (4): '
              'the callbacks must see exactly PMGR_ACTIVE_PENDING, '
              'PMGR_ACTIVE')
    el = la.args[0] if la.args else None
    el_ok = isinstance(el, ast.Subscript) and \
        unparse(el.value) == '_pilot_state_inv' and unparse(el.slice) == ivar
    rep.check(el_ok, rid, f, 'the loop appends _pilot_state_inv[i]',
              construct=la, message='%s: the replay loop appends `%s`, not '
              'the state with value %s' % (f.qual, short(el, 40), ivar),
              loc=f.loc(la), history='a notification that skips states')
    tail_ok = bool(ta.args) and unparse(ta.args[0]) == tgt_p and \
        must_pass(g, g.entry.id, retnode.id, [smap[id(ta)].id]) and \
        smap[id(ta)].id in g.reachable(head.id)
    rep.check(tail_ok, rid, f, 'the target state is appended last, on every '
              'path to the return', construct=ta,
              message='%s: the passed list does not end with the target '
              'state on every path' % f.qual, loc=f.loc(ta),
              history='any forward notification: the target state itself is '
              'never announced to the callbacks')


# ------------------------------------------------------------------------------
# R14.2  only _update_pilot drives Pilot._update
#
def _helpers_of(prog, cls, methods, up):
    """methods of the class that are reached only through plain self calls
    from `up` (directly or through other such helpers): {name}.  A method
    that is also called from elsewhere, referenced without being called
    (handed out as a callback), public, or overridden in a subclass is not a
    helper of `up`."""
    refs = {}       # method name -> [(user name, is plain call)]
    for mname, f in methods.items():
        called = set()
        for c in calls_in(f.node, nested=True):
            if isinstance(c.func, ast.Attribute) and \
                    isinstance(c.func.value, ast.Name) and \
                    c.func.value.id == 'self' and c.func.attr in methods:
                called.add(id(c.func))
                refs.setdefault(c.func.attr, []).append((mname, True))
        for n in walk(f.node, nested=True):
            if isinstance(n, ast.Attribute) and id(n) not in called and \
                    isinstance(n.value, ast.Name) and n.value.id == 'self' \
                    and n.attr in methods and isinstance(n.ctx, ast.Load):
                refs.setdefault(n.attr, []).append((mname, False))
    overridden = set()
    for sub in prog.subclasses(cls):
        if sub is not cls:
            overridden |= set(sub.methods)
    out = set()
    changed = True
    while changed:
        changed = False
        for name, users in refs.items():
            if name in out or name == up.name or not name.startswith('_') \
                    or name.startswith('__') or name in overridden or \
                    methods[name].cls is not cls:
                continue
            if all(plain and (u == up.name or u in out)
                   for u, plain in users):
                out.add(name)
                changed = True
    return out


def r14_2(prog, rep, rid='R14.2', tier='quick', by_value=False,
          unknown_by_value=False):
    rep.rule(rid, 'Pilot._state is written only by Pilot.__init__/_update; '
             'Pilot._update is called only from PilotManager._update_pilot, '
             'for a known pilot, either with an unchanged state or once per '
             'state of the passed list of _pilot_state_progress', minimum=8)
    pilot = prog.cls(*PILOT)
    for mname, f in sorted(pilot.methods.items()):
        for kind, target, stmt in I.stores(f.node, nested=True):
            if unparse(target) != 'self._state':
                continue
            rep.saw(f)
            rep.check(mname in ('__init__', '_update'), rid, f,
                      'Pilot.%s writes self._state' % mname, construct=stmt,
                      message='pilot state written outside the owner: '
                      'Pilot.%s assigns self._state; the forward-only '
                      'argument rests on _update (driven by _update_pilot) '
                      'being the only writer' % mname, loc=f.loc(stmt),
                      history='any call of Pilot.%s sets a state without '
                      'passing _pilot_state_progress' % mname)
    pm = prog.cls(*PMGR)
    methods = dict(pm.methods)
    al = I.Aliases(prog, pm, methods, 'self._pilots')
    up = prog.method(PMGR[0], PMGR[1], '_update_pilot')
    sites = []
    # R14.7 follows _update_pilot into the self calls that hand something to
    # a Pilot._update and decides what arrives there by value: a helper that
    # only _update_pilot reaches is part of it
    helpers = _helpers_of(prog, pm, methods, up) if by_value else set()
    n_sites = 0
    for mname, f in sorted(methods.items()):
        for c in calls_in(f.node, nested=True):
            if not (isinstance(c.func, ast.Attribute) and
                    c.func.attr == '_update'):
                continue
            if not al.is_rooted_expr(mname, c.func.value):
                continue
            rep.saw(f)
            if mname in helpers:
                n_sites += 1
                rep.ok(rid, f, 'Pilot._update called from %s, which is '
                       'reached only from _update_pilot' % mname, f.loc(c))
                rep.ok(rid, f, '%s: known pilot and replayed state as R14.9 '
                       '/ R14.7 decide by value' % short(c, 40), f.loc(c))
                rep.ok(rid, f, '%s is applied as R14.7 decides by value'
                       % short(c, 40), f.loc(c))
                continue
            inside = f is up
            rep.check(inside, rid, f, 'Pilot._update called from '
                      '_update_pilot', construct=c,
                      message='Pilot._update is called from PilotManager.%s, '
                      'outside _update_pilot: this call is not normalised by '
                      '_pilot_state_progress, so the callbacks can see an '
                      'earlier state after a later one or a final state '
                      'being left' % mname, loc=f.loc(c),
                      history='pilot is DONE; a late PMGR_ACTIVE '
                      'notification reaches this call and the facade goes '
                      'back to PMGR_ACTIVE')
            if inside:
                sites.append(c)
    if len(sites) + n_sites < 2:
        raise AnalysisError('R14.2: fewer than 2 Pilot._update call sites in '
                            '%s' % up.where)
    _r14_2_sites(prog, rep, rid, up, sites, by_value, unknown_by_value)
    if tier == 'thorough':
        for m in prog.modules.values():
            for c in calls_in(m.tree, nested=True):
                if isinstance(c.func, ast.Attribute) and \
                        c.func.attr == '_update' and \
                        m.rel not in (PMGR[0],) and \
                        'pilot' in unparse(c.func.value).lower():
                    rep.info(rid, m.rel, 'call of ._update on a pilot-like '
                             'receiver outside the pilot manager: %s'
                             % short(c, 80))


def _defs(f, name):
    """assignment values of a local name (tuple targets: (call, index))"""
    out = []
    for s in walk(f.node):
        if isinstance(s, ast.Assign):
            for t in s.targets:
                if isinstance(t, ast.Name) and t.id == name:
                    out.append((s, s.value, None))
                elif isinstance(t, (ast.Tuple, ast.List)):
                    for i, e in enumerate(t.elts):
                        if isinstance(e, ast.Name) and e.id == name:
                            out.append((s, s.value, i))
    return out


def resolve_aliases(f, expr, depth=0):
    """text of expr with local names that have a single definition which is
    a pure access path (cached `x = self.a[b]`) replaced by that path"""
    class T(ast.NodeTransformer):
        def visit_Name(self, n):
            if isinstance(n.ctx, ast.Load) and n.id not in f.params and \
                    depth < 4:
                ds = _defs(f, n.id)
                if len(ds) == 1 and ds[0][2] is None and \
                        I.is_path(ds[0][1]) and \
                        root_name(ds[0][1]) == 'self' and \
                        not isinstance(ds[0][1], ast.Name):
                    return ast.parse(resolve_aliases(f, ds[0][1], depth + 1),
                                     mode='eval').body
            return n
    import copy
    return unparse(T().visit(copy.deepcopy(expr)))


def _r14_2_sites(prog, rep, rid, up, sites, by_value=False,
                 unknown_by_value=False):
    g = cfg_of(up)
    smap = I.stmt_node_map(g)
    params = [p for p in up.params if p != 'self']
    if not params:
        raise AnalysisError('UNRECOGNISED-IDIOM %s: no pilot_dict parameter'
                            % up.where)
    pdict = params[0]
    prog_f = prog.function(STATES, '_pilot_state_progress')

    def is_uid(name):
        d = _defs(up, name)
        return len(d) == 1 and d[0][2] is None and \
            unparse(d[0][1]) == "%s['uid']" % pdict

    def is_cur(name, pidname):
        d = _defs(up, name)
        return len(d) == 1 and d[0][2] is None and \
            resolve_aliases(up, d[0][1]) == 'self._pilots[%s].state' % pidname

    def tgt_defs(name):
        return _defs(up, name)

    for c in sites:
        node = smap[id(c)]
        recv = ast.parse(resolve_aliases(up, c.func.value), mode='eval').body
        pidname = None
        if isinstance(recv, ast.Subscript) and \
                unparse(recv.value) == 'self._pilots' and \
                isinstance(recv.slice, ast.Name) and is_uid(recv.slice.id):
            pidname = recv.slice.id
        if pidname is None:
            if by_value and unknown_by_value:
                # (a cached `pilot = self._pilots.get(pid)`, say: R14.7 and
                # R14.9 evaluate the receiver instead of reading its spelling)
                rep.ok(rid, up, '%s: known pilot as R14.9 decides by value'
                       % short(c, 40), up.loc(c))
                rep.ok(rid, up, '%s is applied as R14.7 decides by value'
                       % short(c, 40), up.loc(c))
                continue
            raise AnalysisError('UNRECOGNISED-IDIOM %s: receiver of _update '
                                'is not self._pilots[<uid of %s>]: %s'
                                % (up.where, pdict, short(c)))
        gs = guards(g, node.id)
        # known pilots only
        known = None
        for tid, lab in gs:
            a = g.nodes[tid].ast
            if isinstance(a, ast.Compare) and len(a.ops) == 1 and \
                    unparse(a.left) == pidname and \
                    unparse(a.comparators[0]) == 'self._pilots':
                if isinstance(a.ops[0], ast.NotIn):
                    known = (lab == 'F') or (known or False)
                elif isinstance(a.ops[0], ast.In):
                    known = (lab == 'T') or (known or False)
        # (R14.9 decides this for the method as a whole by value - guard
        # in any spelling, lookups in front of the guard included; the
        # spelling is only looked for where that rule could not decide)
        rep.check(bool(known) or unknown_by_value, rid, up,
                  'update of %s is guarded by the pilot being known%s'
                  % (short(recv, 40), '' if known else ' (R14.9, by value)'),
                  construct=c,
                  message='%s: this Pilot._update is reached without (or '
                  'with an inverted) test `%s not in self._pilots`: a '
                  'notification for an unknown pilot is not ignored'
                  % (up.qual, pidname), loc=up.loc(c),
                  history='state notification for a pilot of another '
                  'pilot manager: KeyError in the subscriber thread, the '
                  'rest of the bulk is dropped')
        # the argument is the notification dict itself
        arg_ok = len(c.args) == 1 and unparse(c.args[0]) == pdict
        # (A) unchanged state
        same = False
        for tid, lab in gs:
            a = g.nodes[tid].ast
            if isinstance(a, ast.Compare) and len(a.ops) == 1 and \
                    isinstance(a.left, ast.Name) and \
                    isinstance(a.comparators[0], ast.Name):
                l, r = a.left.id, a.comparators[0].id
                for x, y in ((l, r), (r, l)):
                    if is_cur(x, pidname) and any(
                            unparse(v) == "%s['state']" % pdict and i is None
                            for _, v, i in tgt_defs(y)):
                        if (isinstance(a.ops[0], ast.Eq) and lab == 'T') or \
                                (isinstance(a.ops[0], ast.NotEq) and
                                 lab == 'F'):
                            same = True
        # (B) replay loop over the passed list
        replay = False
        why = 'it is neither guarded by current == target nor inside a loop ' \
              'over the passed list of _pilot_state_progress'
        for h in node.loops:
            hn = g.nodes[h]
            if hn.kind != 'for' or not isinstance(hn.ast.iter, ast.Name) or \
                    not isinstance(hn.ast.target, ast.Name):
                continue
            pname, svar = hn.ast.iter.id, hn.ast.target.id
            from_progress = False
            other = []
            for s, v, i in _defs(up, pname):
                if i == 1 and isinstance(v, ast.Call) and \
                        prog.resolve_call(up, v) is prog_f:
                    a = v.args
                    if len(a) == 3 and unparse(a[0]) == pidname and \
                            isinstance(a[1], ast.Name) and \
                            is_cur(a[1].id, pidname) and \
                            isinstance(a[2], ast.Name):
                        from_progress = True
                elif isinstance(v, ast.Subscript) and \
                        unparse(v.value) == pname and \
                        isinstance(v.slice, ast.Slice):
                    pass                       # order preserving truncation
                else:
                    other.append(s)
            if not from_progress or other:
                why = 'the list it iterates (%s) is not (only) the passed ' \
                      'list returned by _pilot_state_progress(%s, current, ' \
                      'target)' % (pname, pidname)
                continue
            # the state announced is the loop variable
            start, _, _ = loop_slice(g, h)
            sets = [n.id for n in g.stmt_nodes() if n.kind == 'stmt' and
                    isinstance(n.ast, ast.Assign) and h in n.loops and
                    any(unparse(t) == "%s['state']" % pdict
                        for t in n.ast.targets) and
                    unparse(n.ast.value) == svar]
            if sets and must_pass(g, start, node.id, sets):
                replay = True
            else:
                why = 'the notification dict does not get ' \
                      "%s['state'] = %s before the call in every iteration" \
                      % (pdict, svar)
        # a shape this recogniser does not know is left to R14.7, which
        # decides what Pilot._update receives for every (current, target)
        # pair by value - if it could evaluate the method
        shape_ok = arg_ok and (same or replay)
        rep.check(shape_ok or by_value, rid, up,
                  '%s is applied %s' % (short(c, 40), 'with an unchanged state'
                                        if same else 'once per passed state'
                                        if shape_ok else 'as R14.7 decides '
                                        'by value'),
                  construct=c,
                  message='%s: this Pilot._update does not replay the '
                  'normalised progression: %s' % (
                      up.qual, why if arg_ok else 'its argument is not the '
                      'notification dict %s' % pdict),
                  loc=up.loc(c),
                  history='pilot in PMGR_LAUNCHING receives PMGR_ACTIVE: the '
                  'callbacks do not see PMGR_ACTIVE_PENDING (gap not filled) '
                  'or see the target state for every replayed step')


# ------------------------------------------------------------------------------
# R14.7  what _update_pilot hands to Pilot._update, decided by value
#
PMARK  = '<pilot facade>'
PUID   = 'pilot.0000'
SEQ    = 'self.@applied'      # 'self.' prefix: carried in and out of callees
PSTATE = 'self.@pstate'


def _is_subseq(seq, full):
    it = iter(full)
    return all(any(x == y for y in it) for x in seq)


class _ReplayInterp(Interp):
    """Interp for PilotManager._update_pilot on one finite input: self._pilots
    holds one known pilot (PMARK) whose `.state` is the state applied last;
    a call of _pilot_state_progress is answered by its specification (R14.1
    decides that the function meets it); self callees that hand something to
    an `_update` are inlined."""

    def __init__(self, prog, cls, progress_f, tab, inv, final, detect=False,
                 **kw):
        Interp.__init__(self, prog, cls, track=[SEQ], depth=3, **kw)
        self.progress_f = progress_f
        self.tab, self.inv, self.final = tab, inv, final
        # detect: model the lookups that fail on the evaluated values - a key
        # that a completely known dict does not have (KeyError), an attribute
        # or method of None (AttributeError)
        self.detect = detect
        self.faults = []        # (f, node, what, handled, in callee, '@c')
        self._intry = []        # per active inlined call: call site in a try

    def _direct_write(self, f):
        return any(isinstance(c.func, ast.Attribute) and
                   c.func.attr == '_update' for c in calls_in(f.node))

    def _lookup_fault(self, f, e, env):
        """description of the exception the evaluation of the outermost
        operation of e raises on the values of env, or None"""
        if isinstance(e, ast.Subscript) and \
                isinstance(e.ctx, ast.Load) and \
                not isinstance(e.slice, ast.Slice):
            base = self.ev(f, e.value, env)
            if isinstance(base, dict) and self._fault is None:
                idx = self.ev(f, e.slice, env)
                try:
                    if idx is not UNK and not isinstance(idx, Sym) and \
                            not any(k is UNK or isinstance(k, Sym)
                                    for k in base) and idx not in base:
                        return 'KeyError(%r) in `%s`' % (idx, short(e, 50))
                except TypeError:
                    pass
            return None
        if isinstance(e, ast.Attribute) and isinstance(e.ctx, ast.Load):
            if self.ev(f, e.value, env) is None and self._fault is None and \
                    not (isinstance(e.value, ast.Constant)):
                return 'AttributeError: `%s` is None in `%s`' % (
                    short(e.value, 30), short(e, 50))
        return None

    def ev(self, f, e, env):
        if self.detect and self._fault is None and \
                isinstance(e, (ast.Subscript, ast.Attribute)) and \
                not (_key_of(e) in env or _key_of(e) in self.inputs):
            w = self._lookup_fault(f, e, env)
            if w is not None:
                self._fault = w
                return UNK
        if isinstance(e, ast.Attribute) and e.attr == 'state' and \
                _key_of(e) not in env:
            b = Interp.ev(self, f, e.value, env)
            if isinstance(b, str) and b == PMARK:
                return env.get(PSTATE, UNK)
        return Interp.ev(self, f, e, env)

    def effects(self, f, node, edge, env, depth):
        a = node.ast
        if self.detect and node.kind == 'stmt' and self._fault is None and \
                isinstance(a, ast.Expr) and isinstance(a.value, ast.Call):
            # a call statement: its receiver and arguments are evaluated
            # (the base class only looks at what the call changes)
            c = a.value
            if isinstance(c.func, ast.Attribute):
                w = self._lookup_fault(f, c.func, env)
                if self._fault is None:
                    self._fault = w
            for x in list(c.args) + [k.value for k in c.keywords]:
                if self._fault is None and not isinstance(x, ast.Starred):
                    self.ev(f, x, env)
        self._intry.append(bool(node.tries))
        try:
            return Interp.effects(self, f, node, edge, env, depth)
        finally:
            self._intry.pop()

    def fault_at(self, f, g, node, env, what):
        # (called after the effects of the node: _intry holds the call sites
        # of the active inlined calls only)
        handled = any(e.label == 'exc' and e.dst != g.raise_.id and
                      g.exit.id in g.reachable(e.dst) for e in g.succ[node.id])
        self.faults.append((f, node, what, handled, any(self._intry),
                            bool(env.get('@c'))))

    def progress_spec(self, cur, tgt, real=UNK):
        """(state, passed) as R14.1 specifies it; where the specification
        leaves the returned state open (no progress) the value the function
        itself returns is used, if it can be evaluated"""
        tab = self.tab
        try:
            if cur is UNK or tgt is UNK or cur not in tab or tgt not in tab:
                return UNK
        except TypeError:
            return UNK
        if tab[cur] < tab[tgt]:
            return (tgt, [self.inv[i] for i in range(tab[cur] + 1, tab[tgt])]
                    + [tgt])
        st = UNK
        if isinstance(real, (list, tuple)) and len(real) == 2 and \
                isinstance(real[0], str):
            st = real[0]
        return (st, [])

    def _call(self, f, c, env):
        if self.detect and self._fault is None and \
                isinstance(c.func, ast.Attribute):
            # (the receiver of a method call is evaluated like an attribute)
            w = self._lookup_fault(f, c.func, env)
            if w is not None:
                self._fault = w
                return UNK
        try:
            g = self.prog.resolve_call(f, c, self.cls if f.cls else None)
        except Exception:
            g = None
        if g is not None and g is self.progress_f:
            ps = g.params
            if len(ps) != 3:
                return UNK
            cenv = self._bind(f, c, g, env)
            return self.progress_spec(unsym(cenv.get(ps[1], UNK)),
                                      unsym(cenv.get(ps[2], UNK)),
                                      Interp._call(self, f, c, env))
        return Interp._call(self, f, c, env)


def _step_accepted(prog, upd, prev, s):
    """Pilot._update, entered with the facade in state prev and a
    notification for state s, reaches its end with self._state == s on some
    path (None: cannot be evaluated)"""
    ps = [p for p in upd.params if p != 'self']
    if not ps:
        return None
    pd = ps[0]
    ip = Interp(prog, upd.cls, track=['self._state'], depth=1,
                inputs={'self.state': prev, 'self.uid': PUID,
                        "%s['uid']" % pd: PUID, "%s['state']" % pd: s},
                max_states=20000)
    try:
        exits = ip.run(upd, {'self._state': prev})
    except AnalysisError:
        return None
    vals = {unsym(thaw(dict(fe).get('self._state', UNK))) for fe in exits}
    if s in vals:
        return True
    return None if UNK in vals else False


def r14_7(prog, rep, rid='R14.7'):
    rep.rule(rid, 'for every pair (state of the pilot, state of the '
             'notification) of the pilot state table, PilotManager.'
             '_update_pilot hands Pilot._update exactly the states in '
             '(current, target] one by one - intermediate states are dropped '
             'only for the targets FAILED / CANCELED - nothing for a target '
             'that is not ahead, and Pilot._update accepts every such step',
             minimum=12)
    tab = prog.const(STATES, '_pilot_state_values')
    final = prog.const(STATES, 'FINAL')
    abnormal = {prog.const(STATES, 'FAILED'), prog.const(STATES, 'CANCELED')}
    if not isinstance(tab, dict) or not isinstance(final, list) or \
            not all(isinstance(x, str) for x in abnormal):
        raise AnalysisError('R14.7: _pilot_state_values / FINAL / FAILED / '
                            'CANCELED do not fold')
    states = sorted((s for s in tab if s is not None),
                    key=lambda s: (tab[s], s))
    inv = {v: k for k, v in tab.items() if k is not None and k not in final}
    n = len(inv)
    if sorted(inv) != list(range(n)) or \
            any(tab.get(s) != n for s in final):
        # R14.1 reports the malformed table; the specification of the replay
        # is not defined on it
        raise AnalysisError('R14.7: the pilot state table is not a linear '
                            'order with a shared final value (see R14.1)')
    pm = prog.cls(*PMGR)
    up = prog.method(PMGR[0], PMGR[1], '_update_pilot')
    upd = prog.method(PILOT[0], PILOT[1], '_update')
    prog_f = prog.function(STATES, '_pilot_state_progress')
    rep.saw(up)
    rep.saw(upd)
    params = [p for p in up.params if p != 'self']
    if not params:
        raise AnalysisError('UNRECOGNISED-IDIOM %s: no pilot_dict parameter'
                            % up.where)
    pdict = params[0]
    KEY_ST = "%s['state']" % pdict

    n_obs = [0]
    verdicts = []

    def observe(f, node, env):
        if node.kind != 'stmt' or node.ast is None or \
                isinstance(node.ast, (ast.FunctionDef, ast.ClassDef,
                                      ast.AsyncFunctionDef)):
            return
        for c in calls_in(node.ast):
            if not (isinstance(c.func, ast.Attribute) and
                    c.func.attr == '_update'):
                continue
            recv = c.func.value
            if isinstance(recv, ast.Name) and recv.id in ('self', 'cls'):
                continue
            rv = ip.ev(f, recv, env)
            if rv is UNK or isinstance(rv, Sym):
                raise AnalysisError('UNRECOGNISED-IDIOM %s: receiver of `%s` '
                                    'cannot be evaluated' % (f.where,
                                                             short(c, 60)))
            if not (isinstance(rv, str) and rv == PMARK):
                continue
            if len(c.args) != 1 or c.keywords:
                raise AnalysisError('UNRECOGNISED-IDIOM %s: Pilot._update is '
                                    'not called with one notification dict: '
                                    '%s' % (f.where, short(c, 60)))
            arg = c.args[0]
            # a (deep) copy of the notification carries the same state
            while isinstance(arg, ast.Call) and not arg.keywords and (
                    (len(arg.args) == 1 and call_name(arg) in
                     ('dict', 'copy.copy', 'copy.deepcopy')) or
                    (not arg.args and isinstance(arg.func, ast.Attribute)
                     and arg.func.attr == 'copy')):
                arg = arg.args[0] if arg.args else arg.func.value
            st = ip.ev(f, ast.Subscript(value=arg,
                                        slice=ast.Constant(value='state'),
                                        ctx=ast.Load()), env)
            if st is UNK or isinstance(st, Sym):
                raise AnalysisError('UNRECOGNISED-IDIOM %s: the state of the '
                                    'notification handed to Pilot._update '
                                    'cannot be evaluated: %s'
                                    % (f.where, short(c, 60)))
            env[SEQ] = tuple(env.get(SEQ, ())) + (st,)
            env[PSTATE] = st
            n_obs[0] += 1

    ip = _ReplayInterp(prog, pm, prog_f, tab, inv, final, observe=observe,
                       inputs={'self._pilots': {PUID: PMARK},
                               '_pilot_state_inv': inv,
                               "%s['uid']" % pdict: PUID},
                       max_states=200000)

    def expected(cur, tgt):
        if cur == tgt:
            return 'same', ()
        if tab[cur] < tab[tgt]:
            return 'ahead', tuple(inv[i] for i in range(tab[cur] + 1,
                                                        tab[tgt])) + (tgt,)
        return 'stale', ()

    def conforms(cur, tgt, seq):
        kind, want = expected(cur, tgt)
        if kind == 'same':
            return seq in ((), (tgt,))
        if kind == 'ahead' and tgt in abnormal:
            return bool(seq) and seq[-1] == tgt and _is_subseq(seq, want)
        if kind == 'stale':
            # (an update that carries the state the pilot already has is
            # what the current == target branch does, too)
            return seq in ((), (cur,))
        return seq == want

    # contradicting final states: the specification (R14.1) lets the progress
    # function raise; _update_pilot then applies nothing after the call
    plain = Interp(prog, None, inputs={'_pilot_state_inv': inv})
    ppar = prog_f.params
    raising = set()
    if len(ppar) == 3:
        for cur in final:
            for tgt in final:
                if cur != tgt and not plain.run(
                        prog_f, {ppar[0]: PUID, ppar[1]: cur, ppar[2]: tgt}):
                    raising.add((cur, tgt))
    steps = {}          # target state -> {(prev, s)}
    for tgt in states:
        bad = None
        for cur in states:
            if (cur, tgt) in raising:
                continue
            ip.inputs[KEY_ST] = tgt
            exits = ip.run(up, {SEQ: (), PSTATE: cur}, inlined=True)
            if not exits:
                raise AnalysisError('UNRECOGNISED-IDIOM %s: no path reaches '
                                    'the end of the method for a pilot in %s '
                                    'notified %s' % (up.where, cur, tgt))
            seqs = []
            for fe in exits:
                d = dict(fe)
                seq = thaw(d.get(SEQ, UNK))
                if not isinstance(seq, tuple):
                    raise AnalysisError('UNRECOGNISED-IDIOM %s: the updates '
                                        'made below the inlining depth cannot '
                                        'be followed' % up.where)
                # (a path through an `except` clause is hypothetical, like
                # one behind an undecided test: nothing says the exception
                # occurs for this input)
                seqs.append((seq, bool(d.get('@c')) or bool(d.get('@h'))))
            wrong = [q for q, c in seqs if not conforms(cur, tgt, q)]
            decided = [q for q, c in seqs if not c and
                       not conforms(cur, tgt, q)]
            if decided or len(wrong) == len(seqs):
                # report the nearest pair (the most likely history)
                cand = (abs(tab[tgt] - tab[cur]), cur,
                        sorted(set(decided or wrong))[0])
                bad = cand if bad is None or cand[0] < bad[0] else bad
            elif wrong:
                rep.info(rid, up, 'pilot in %s notified %s: only paths whose '
                         'conditions cannot be decided apply %s'
                         % (cur, tgt, sorted(set(wrong))), up.loc())
            for q, c in seqs:
                if conforms(cur, tgt, q):
                    for prev, s in zip((cur,) + q, q):
                        steps.setdefault(s, set()).add((prev, s))
        if bad:
            bad = bad[1:]
            cur, seq = bad
            kind, want = expected(cur, tgt)
            if kind == 'ahead' and _is_subseq(seq, want) and seq and \
                    seq[-1] == tgt:
                why = 'the skipped intermediate state(s) %s are not filled ' \
                      'in; only %s may be entered from any state' % (
                          [x for x in want if x not in seq],
                          ' / '.join(sorted(abnormal)))
                hist = 'pilot is %s, the notification(s) for %s are lost or ' \
                       'late and the %s notification arrives: the callbacks ' \
                       'jump %s -> %s (Pilot._update rejects a step of more ' \
                       'than one state, so the pilot may never become %s)' \
                       % (cur, ', '.join(want[:-1]), tgt, cur, seq[0], tgt)
            elif kind == 'ahead':
                why = 'the states in (current, target] are not applied one ' \
                      'by one, each once, in pipeline order'
                hist = 'pilot is %s and is notified %s: the callbacks see ' \
                       '%s instead of %s' % (cur, tgt, list(seq), list(want))
            elif kind == 'stale':
                why = 'a notification that is not ahead of the state of the ' \
                      'pilot must not be applied'
                hist = 'pilot is %s and a late / reordered %s notification ' \
                       'arrives: the callbacks see %s after %s' \
                       % (cur, tgt, list(seq), cur)
            else:
                why = 'a notification for the state the pilot already has ' \
                      'is applied at most once, unchanged'
                hist = 'pilot is %s and a duplicate %s notification ' \
                       'arrives: the callbacks see %s' % (cur, tgt, list(seq))
        verdicts.append(dict(
                  cond=bad is None, what='notification for %s: for every '
                  'current state Pilot._update receives the states in '
                  '(current, %s] one by one%s, nothing if %s is not ahead'
                  % (tgt, tgt, ' (intermediate states may be dropped)'
                     if tgt in abnormal else '', tgt),
                  construct='replay:%s' % tgt,
                  message='%s: for a pilot in state %s that is notified %s, '
                  'Pilot._update receives the states %s; it must receive '
                  '%s: %s' % ((up.qual, bad[0], tgt, list(bad[1]),
                               list(expected(bad[0], tgt)[1]), why)
                              if bad else (up.qual, '', tgt, [], [], '')),
                  history=hist if bad else ''))
    rep.stat('interp_states', ip.states)
    if not n_obs[0]:
        # (not eight findings: the method does not drive Pilot._update in a
        # way this rule can follow - R14.2 looks at the call sites)
        raise AnalysisError('UNRECOGNISED-IDIOM %s: no call of Pilot._update '
                            'on the pilot instance is reached for any pair '
                            'of states' % up.where)
    for v in verdicts:
        rep.check(v['cond'], rid, up, v['what'], construct=v['construct'],
                  message=v['message'], loc=up.loc(), history=v['history'])
    # the cooperating site: Pilot._update takes every step it is handed
    for s in states:
        rej = None
        unk = 0
        for prev, _ in sorted(steps.get(s, ())):
            acc = _step_accepted(prog, upd, prev, s)
            if acc is False:
                rej = rej or prev
            elif acc is None:
                unk += 1
        if unk:
            rep.info(rid, upd, '%d step(s) into %s cannot be evaluated in '
                     'Pilot._update' % (unk, s), upd.loc())
        rep.check(rej is None, rid, upd, 'Pilot._update accepts every step '
                  'into %s that _update_pilot hands it (%d)'
                  % (s, len(steps.get(s, ()))), construct='accept:%s' % s,
                  message='%s hands Pilot._update the step %s -> %s, but %s '
                  'does not reach `self._state = %s` for it on any path (it '
                  'raises or returns before): the notification is never '
                  'applied' % (up.qual, rej, s, upd.qual, s),
                  loc=upd.loc(), history='pilot is %s and is notified %s: '
                  'Pilot._update raises out of the state subscriber, the '
                  'facade keeps the state %s and wait() never sees %s'
                  % (rej, s, rej, s))
    return True


# ------------------------------------------------------------------------------
# R14.9  notifications for unknown pilots are ignored, decided by value
#
UNKNOWN_UID = 'pilot.unknown'


def _linear_table(prog, rid):
    tab = prog.const(STATES, '_pilot_state_values')
    final = prog.const(STATES, 'FINAL')
    if not isinstance(tab, dict) or not isinstance(final, list):
        raise AnalysisError('%s: _pilot_state_values / FINAL do not fold'
                            % rid)
    states = sorted((s for s in tab if s is not None),
                    key=lambda s: (tab[s], s))
    inv = {v: k for k, v in tab.items() if k is not None and k not in final}
    n = len(inv)
    if sorted(inv) != list(range(n)) or any(tab.get(s) != n for s in final):
        raise AnalysisError('%s: the pilot state table is not a linear order '
                            'with a shared final value (see R14.1)' % rid)
    return tab, final, inv, states


def r14_9(prog, rep, rid='R14.9'):
    """returns True when the rule could decide (R14.2 then does not look for
    the spelling `pid not in self._pilots` in front of each update)"""
    rep.rule(rid, 'a notification for a pilot that PilotManager._pilots does '
             'not hold is ignored: _update_pilot, evaluated for such a '
             'notification, performs no lookup that fails (a key self._pilots '
             'does not have, an attribute of the None that .get returned), '
             'hands nothing to a Pilot._update and reaches its normal end',
             minimum=2)
    tab, final, inv, states = _linear_table(prog, rid)
    pm = prog.cls(*PMGR)
    up = prog.method(PMGR[0], PMGR[1], '_update_pilot')
    prog_f = prog.function(STATES, '_pilot_state_progress')
    rep.saw(up)
    params = [p for p in up.params if p != 'self']
    if not params:
        raise AnalysisError('UNRECOGNISED-IDIOM %s: no pilot_dict parameter'
                            % up.where)
    pdict = params[0]
    applied, blind = [], []

    def observe(f, node, env):
        if node.kind != 'stmt' or node.ast is None or \
                isinstance(node.ast, (ast.FunctionDef, ast.ClassDef,
                                      ast.AsyncFunctionDef)):
            return
        for c in calls_in(node.ast):
            if not (isinstance(c.func, ast.Attribute) and
                    c.func.attr == '_update'):
                continue
            recv = c.func.value
            if isinstance(recv, ast.Name) and recv.id in ('self', 'cls'):
                continue
            rv = ip.ev(f, recv, env)
            if ip._fault is not None or rv is None:
                return                  # the statement raises: see fault_at
            if isinstance(rv, str) and rv == PMARK:
                applied.append((f, c, bool(env.get('@c'))))
            elif rv is UNK or isinstance(rv, Sym):
                blind.append((f, c, bool(env.get('@c'))))

    ip = _ReplayInterp(prog, pm, prog_f, tab, inv, final, detect=True,
                       observe=observe,
                       inputs={'self._pilots': {PUID: PMARK},
                               '_pilot_state_inv': inv,
                               "%s['uid']" % pdict: UNKNOWN_UID},
                       max_states=200000)
    n_exits = 0
    for tgt in states:
        ip.inputs["%s['state']" % pdict] = tgt
        n_exits += len(ip.run(up, {SEQ: (), PSTATE: UNK}, inlined=True))
    rep.stat('interp_states', ip.states)
    raises, seen = [], set()
    for f, node, what, handled, below_try, cond in ip.faults:
        if handled or (f.qual, what) in seen:
            continue           # (the path through the handler is followed)
        seen.add((f.qual, what))
        if cond:
            rep.info(rid, f, 'unknown pilot: %s on a path whose conditions '
                     'cannot be decided' % what, f.loc(node.ast))
        elif below_try:
            raise AnalysisError('UNRECOGNISED-IDIOM %s: %s below a call that '
                                'sits in a try block: cannot decide who '
                                'handles it' % (f.where, what))
        else:
            raises.append((f, node, what))
    hist = 'a state notification for a pilot of another pilot manager (all ' \
           'pilot managers listen on the same state pubsub) arrives in a ' \
           'bulk together with notifications for known pilots'
    for f, node, what in raises:
        rep.bad(rid, f, 'unknown-pilot:%s' % what.split('(')[0].split(':')[0],
                '%s: for a notification whose uid is not in self._pilots '
                'this statement raises %s - it is evaluated before (or '
                'without) the test that lets unknown pilots return: the '
                'notification is not ignored' % (f.qual, what),
                f.loc(node.ast), history=hist + ': the exception leaves '
                '_state_sub_cb in the subscriber thread and the rest of the '
                'bulk message is dropped')
    if not raises:
        rep.ok(rid, up, 'no lookup fails for a notification of an unknown '
               'pilot', up.loc())
    dec = [(f, c) for f, c, cond in applied if not cond]
    if blind and not raises and not dec:
        f, c, cond = blind[0]
        raise AnalysisError('UNRECOGNISED-IDIOM %s: receiver of `%s` cannot '
                            'be evaluated for an unknown pilot'
                            % (f.where, short(c, 60)))
    for f, c in dec[:1]:
        rep.bad(rid, f, c, '%s: a notification whose uid is not in '
                'self._pilots is handed to the Pilot._update of a pilot this '
                'manager holds (`%s`): the state of a foreign pilot is '
                'applied to another pilot' % (f.qual, short(c, 60)),
                f.loc(c), history=hist + ': the known pilot is moved to the '
                'state of the foreign one')
    if not dec:
        rep.ok(rid, up, 'nothing is handed to Pilot._update for an unknown '
               'pilot', up.loc())
    if not n_exits and not raises and not dec:
        raise AnalysisError('UNRECOGNISED-IDIOM %s: no path reaches the end '
                            'of the method for an unknown pilot' % up.where)
    return True


# ------------------------------------------------------------------------------
# R14.10  the task manager's scheduler keeps the normalised pilot state
#
TSCHED = ('tmgr/scheduler/base.py', 'TMGRSchedulingComponent')


class _Ref:
    """a local name bound to a dict that lives inside a known dict variable
    (`rec = self._pilots[pid]`): reads and item stores go to that place"""
    __slots__ = ('root', 'path')

    def __init__(self, root, path):
        self.root, self.path = root, tuple(path)

    def __eq__(self, other):
        return isinstance(other, _Ref) and \
            (other.root, other.path) == (self.root, self.path)

    def __hash__(self):
        return hash(('Ref', self.root, self.path))

    def __repr__(self):
        return '&%s%s' % (self.root, ''.join('[%r]' % (x,) for x in self.path))


class _RecordInterp(_ReplayInterp):
    """_ReplayInterp with exact item stores into nested dicts of known content
    (`self._pilots[pid]['state'] = x` with a known pid) and references to
    such inner dicts held in locals"""

    def _place(self, f, e, env):
        """(root key, [index values]) of the place a subscript / .get chain
        denotes inside a dict variable of known content, or None"""
        idxs = []
        while True:
            if isinstance(e, ast.Subscript) and \
                    not isinstance(e.slice, ast.Slice):
                idxs.append(self.ev(f, e.slice, env))
                e = e.value
            elif isinstance(e, ast.Call) and not e.keywords and \
                    isinstance(e.func, ast.Attribute) and \
                    e.func.attr == 'get' and len(e.args) == 1:
                idxs.append(self.ev(f, e.args[0], env))
                e = e.func.value
            else:
                break
        idxs.reverse()
        k = _key_of(e)
        if k is None:
            return None
        v = env.get(k)
        if isinstance(v, _Ref):
            k, idxs = v.root, list(v.path) + idxs
            v = env.get(k)
        if not isinstance(v, dict) or not idxs:
            return None
        for i in idxs:
            if i is UNK or isinstance(i, (Sym, list, dict)):
                return None
        return k, idxs

    def _direct_write(self, f):
        # any store through a path / mutating call: helpers that write the
        # records are followed
        return any(True for _ in I.stores(f.node)) or \
            _ReplayInterp._direct_write(self, f)

    def _bind(self, f, call, g, env):
        cenv = _ReplayInterp._bind(self, f, call, g, env)
        a = g.node.args
        pos = [x.arg for x in a.posonlyargs + a.args]
        if g.cls is not None and pos and pos[0] in ('self', 'cls'):
            pos = pos[1:]
        bound = [(pos[i], x) for i, x in enumerate(call.args)
                 if i < len(pos)] + \
                [(kw.arg, kw.value) for kw in call.keywords if kw.arg]
        for pn, x in bound:
            if isinstance(x, ast.Starred) or pn not in cenv:
                continue
            pl = self._place(f, x, env)
            if pl is not None and pl[0].startswith('self.') and \
                    isinstance(self._at(env[pl[0]], pl[1]), dict):
                cenv[pn] = _Ref(*pl)      # a record is passed by reference
        return cenv

    def effects(self, f, node, edge, env, depth):
        outs = _ReplayInterp.effects(self, f, node, edge, env, depth)
        a = node.ast
        if node.kind == 'stmt' and isinstance(a, ast.Return) and \
                isinstance(a.value, ast.Name):
            # a record is returned by reference
            for x in outs:
                if isinstance(x.get(a.value.id), _Ref):
                    x['@ret'] = x[a.value.id]
        return outs

    @staticmethod
    def _at(d, idxs):
        for i in idxs:
            if not isinstance(d, dict) or i not in d:
                return UNK
            d = d[i]
        return d

    def ev(self, f, e, env):
        if isinstance(e, ast.Name) and isinstance(env.get(e.id), _Ref):
            r = env[e.id]
            return self._at(env.get(r.root, UNK), r.path)
        return _ReplayInterp.ev(self, f, e, env)

    def assign(self, f, target, v, env, stmt=None):
        if isinstance(target, ast.Subscript):
            pl = self._place(f, target, env)
            if pl is not None:
                root, idxs = pl

                def put(d, rest):
                    if not isinstance(d, dict):
                        return None
                    d = dict(d)
                    if len(rest) == 1:
                        d[rest[0]] = v
                        return d
                    if rest[0] not in d:
                        return None
                    sub = put(d[rest[0]], rest[1:])
                    if sub is None:
                        return None
                    d[rest[0]] = sub
                    return d
                new = put(env[root], idxs)
                if new is not None:
                    self._kill(env, root)
                    env[root] = new
                    src = stmt.value if isinstance(stmt, ast.Assign) and \
                        len(stmt.targets) == 1 else None
                    if isinstance(src, ast.Name) and isinstance(v, dict) and \
                            isinstance(env.get(src.id), dict):
                        # `self._pilots[pid] = record`: the local and the
                        # slot are one object from now on
                        env[src.id] = _Ref(root, idxs)
                    return
        if isinstance(target, ast.Name) and isinstance(stmt, ast.Assign) and \
                len(stmt.targets) == 1 and stmt.targets[0] is target:
            pl = self._place(f, stmt.value, env)
            if pl is not None and isinstance(self._at(env[pl[0]], pl[1]),
                                             dict):
                self._kill(env, target.id, keep_self=False)
                env[target.id] = _Ref(*pl)
                return
        return _ReplayInterp.assign(self, f, target, v, env, stmt)


def r14_10(prog, rep, rid='R14.10'):
    rep.rule(rid, 'the pilot state the task manager scheduler records '
             '(TMGRSchedulingComponent._update_pilot_states, the only writer '
             'of the state of a pilot record) is the later one of the '
             'recorded and the notified state, for every pair of states of '
             'the pilot state table: it never moves backwards and a final '
             'state is never left for a non-final one', minimum=9)
    tab, final, inv, states = _linear_table(prog, rid)
    sc = prog.cls(*TSCHED)
    up = prog.method(TSCHED[0], TSCHED[1], '_update_pilot_states')
    prog_f = prog.function(STATES, '_pilot_state_progress')
    rep.saw(up)
    params = [p for p in up.params if p != 'self']
    if not params:
        raise AnalysisError('UNRECOGNISED-IDIOM %s: no parameter for the '
                            'pilot notifications' % up.where)
    plist = params[0]
    ATTR = 'self._pilots'

    # (a) who writes the state of a pilot record -------------------------------
    classes = [sc] + [c for c in prog.subclasses(sc) if c is not sc]
    n_w = 0
    for c in classes:
        methods = dict(c.methods)
        al = I.Aliases(prog, c, methods, ATTR)
        helpers = _helpers_of(prog, c, methods, up) if c is sc else set()
        for mname, f in sorted(methods.items()):

            def is_record(e, depth=0):
                """e denotes one pilot record: self._pilots[..], .get(..), or
                a local that is only ever bound to such (or runs over the
                values of self._pilots); deeper parts of a record - the
                pilot description kept in it - are something else"""
                if isinstance(e, ast.Subscript):
                    return unparse(e.value) == ATTR and \
                        not isinstance(e.slice, ast.Slice)
                if isinstance(e, ast.Call) and \
                        isinstance(e.func, ast.Attribute) and \
                        e.func.attr in ('get', 'setdefault') and e.args:
                    return unparse(e.func.value) == ATTR
                if isinstance(e, ast.Name) and depth < 3 and \
                        e.id not in f.params:
                    ds = _defs(f, e.id)
                    loops = [n for n in walk(f.node, nested=True)
                             if isinstance(n, (ast.For, ast.comprehension))
                             and any(isinstance(x, ast.Name) and x.id == e.id
                                     for x in ast.walk(n.target))]
                    if loops:
                        return not ds and all(
                            isinstance(n.target, ast.Name) and
                            unparse(n.iter) == ATTR + '.values()'
                            for n in loops)
                    return bool(ds) and all(
                        i is None and is_record(v, depth + 1)
                        for _, v, i in ds)
                return False

            for kind, target, stmt in I.stores(f.node, nested=True):
                if not (isinstance(target, ast.Subscript) and
                        isinstance(target.slice, ast.Constant) and
                        target.slice.value == 'state' and
                        al.is_rooted_expr(mname, target.value) and
                        (is_record(target.value) or f is up or
                         mname in helpers)):
                    continue
                n_w += 1
                rep.saw(f)
                rep.check(f is up or mname in helpers, rid, f,
                          'the state of a pilot record is written by '
                          '_update_pilot_states', construct=stmt,
                          message='%s stores the state of a pilot record '
                          '(`%s`) outside _update_pilot_states: this store is '
                          'not normalised by _pilot_state_progress, so the '
                          'state the scheduler works with can move backwards '
                          'or leave a final state' % (f.qual, short(stmt, 60)),
                          loc=f.loc(stmt), history='pilot is DONE; a late '
                          'PMGR_ACTIVE notification reaches this store: the '
                          'scheduler considers the pilot usable again')
    if not n_w:
        raise AnalysisError('UNRECOGNISED-IDIOM %s: no store of the state of '
                            'a pilot record below %s' % (up.where, ATTR))

    # (b) the recorded state after one notification, by value ------------------
    ip = _RecordInterp(prog, sc, prog_f, tab, inv, final,
                       inputs={'_pilot_state_inv': inv}, max_states=200000)
    ABSENT = '<no record>'
    rank = lambda x: tab[x]

    def expected(cur, tgt):
        if rank(cur) < rank(tgt):
            return 'ahead', {tgt}
        if cur in final and tgt in final:
            return 'final', set(final)
        return 'stale', {cur}

    # contradicting final states: the specification (R14.1) lets the progress
    # function raise; nothing is recorded then
    plain = Interp(prog, None, inputs={'_pilot_state_inv': inv})
    ppar = prog_f.params
    raising = set()
    if len(ppar) == 3:
        for cur in final:
            for tgt in final:
                if cur != tgt and not plain.run(
                        prog_f, {ppar[0]: PUID, ppar[1]: cur, ppar[2]: tgt}):
                    raising.add((cur, tgt))

    for tgt in states:
        bad = None
        for cur in [ABSENT, None] + states:
            if (cur, tgt) in raising:
                continue
            recs = {} if cur is ABSENT else {
                PUID: {'role': None, 'state': cur, 'pilot': None, 'info': {}}}
            c0 = None if cur is ABSENT else cur
            env = {plist: [{'uid': PUID, 'state': tgt, 'type': 'pilot'}],
                   ATTR: recs, SEQ: ()}
            exits = ip.run(up, env, inlined=True)
            kind, want = expected(c0, tgt)
            if not exits:
                if kind == 'final':
                    continue         # contradicting finals: progress raises
                raise AnalysisError('UNRECOGNISED-IDIOM %s: no path reaches '
                                    'the end of the method for a pilot '
                                    'recorded as %s and notified %s'
                                    % (up.where, cur, tgt))
            got = []
            for fe in exits:
                d = dict(fe)
                rec = thaw(d.get(ATTR, UNK))
                st = _RecordInterp._at(rec, [PUID, 'state']) \
                    if isinstance(rec, dict) else UNK
                if st is UNK or isinstance(st, Sym):
                    raise AnalysisError('UNRECOGNISED-IDIOM %s: the state '
                                        'recorded for a pilot in %s that is '
                                        'notified %s cannot be evaluated'
                                        % (up.where, cur, tgt))
                got.append((st, bool(d.get('@c'))))
            wrong = [st for st, c in got if st not in want]
            decided = [st for st, c in got if not c and st not in want]
            if decided or len(wrong) == len(got):
                cand = (abs(rank(tgt) - rank(c0)), cur,
                        sorted(set(decided or wrong), key=repr)[0], kind)
                bad = cand if bad is None or cand[0] < bad[0] else bad
            elif wrong:
                rep.info(rid, up, 'pilot recorded as %s notified %s: only '
                         'paths whose conditions cannot be decided record %s'
                         % (cur, tgt, sorted(set(wrong), key=repr)), up.loc())
        if bad:
            _, cur, st, kind = bad
            if kind == 'ahead':
                why = 'the notification is ahead of the recorded state and ' \
                      'must be recorded'
                hist = 'the scheduler has the pilot as %s and is notified ' \
                       '%s: it keeps %s (a pilot that became PMGR_ACTIVE is ' \
                       'never used, a pilot that ended is still scheduled ' \
                       'on)' % (cur, tgt, st)
            else:
                why = 'the notification is not ahead of the recorded state: ' \
                      'the record must keep %s (the state returned by ' \
                      '_pilot_state_progress, not the raw state of the ' \
                      'notification, is the one to store)' % cur
                hist = 'the scheduler has the pilot as %s and a late / ' \
                       'reordered %s notification arrives: the record goes ' \
                       'back to %s%s' % (
                           cur, tgt, st, ' - the pilot is gone, yet tasks are '
                           'scheduled onto it again' if cur in final else '')
        rep.check(bad is None, rid, up, 'notification for %s: the record '
                  'holds the later of the recorded state and %s afterwards, '
                  'whatever was recorded' % (tgt, tgt),
                  construct='record:%s' % tgt,
                  message='%s: for a pilot recorded as %s that is notified '
                  '%s the scheduler records %s afterwards: %s'
                  % ((up.qual, bad[1], tgt, bad[2], why) if bad
                     else (up.qual, '', tgt, '', '')),
                  loc=up.loc(), history=hist if bad else '')
    rep.stat('interp_states', ip.states)


# ------------------------------------------------------------------------------
# R14.12  one record per pilot.  The scheduler keeps one dict per pilot in
# self._pilots and changes it in place (`self._pilots[pid]['state'] = ..`).
# What R14.10 evaluates for one record only holds when the records of two
# pilots are two objects: a value stored as the record of a key that varies
# with a loop must be created in the iteration that stores it (a dict display,
# a copying constructor, a helper that returns one) - not one object defined
# in front of the loop (or kept in an attribute) and stored for every pilot.
#
_FRESH_CALLS = ('dict', 'copy.deepcopy', 'copy.copy', 'deepcopy',
                'ru.Config', 'ru.TypedDict', 'collections.defaultdict',
                'defaultdict', 'OrderedDict', 'collections.OrderedDict')


def _fresh_value(prog, f, g, smap, e, at, loop, cls, depth=0):
    """True: e, evaluated at cfg node `at`, is an object made in the running
    iteration of `loop` (a cfg node id); False: it is one object for all
    iterations; None: cannot be told.  Second value: the expression / node
    that decides"""
    if depth > 4:
        return None, e
    if isinstance(e, (ast.Dict, ast.DictComp)):
        return True, e
    if isinstance(e, ast.IfExp):
        a = _fresh_value(prog, f, g, smap, e.body, at, loop, cls, depth + 1)
        b = _fresh_value(prog, f, g, smap, e.orelse, at, loop, cls, depth + 1)
        for r in (a, b):
            if r[0] is False:
                return r
        return (True, e) if a[0] and b[0] else (None, e)
    if isinstance(e, ast.Call):
        cn = call_name(e)
        if cn in _FRESH_CALLS:
            return True, e
        if isinstance(e.func, ast.Attribute) and e.func.attr in (
                'copy', 'as_dict') and not e.args:
            return True, e
        try:
            callee = prog.resolve_call(f, e, cls)
        except Exception:
            callee = None
        if callee is not None and depth < 3:
            rets = [n for n in walk(callee.node) if isinstance(n, ast.Return)]
            if not rets or any(r.value is None for r in rets):
                return None, e
            cg = cfg_of(callee)
            cmap = I.stmt_node_map(cg)
            res = []
            for r in rets:
                rn = cmap.get(id(r))
                if rn is None:
                    return None, e
                # in the callee nothing is `in front of the loop`: a value is
                # fresh when it is made by the call
                res.append(_fresh_value(prog, callee, cg, cmap, r.value,
                                        rn.id, None, callee.cls or cls,
                                        depth + 1)[0])
            if all(x is True for x in res):
                return True, e
            if any(x is False for x in res):
                return False, e
        return None, e
    if isinstance(e, ast.Attribute) and isinstance(e.value, ast.Name) and \
            e.value.id == 'self':
        return False, e               # one object kept by the component
    if isinstance(e, ast.Name):
        if e.id in f.params:
            return None, e
        defs = reaching_defs(g, e.id, at)
        if not defs:
            return None, e
        verdict = True
        for dn, v in defs:
            if v is None:
                return None, e
            r, why = _fresh_value(prog, f, g, smap, v, dn.id, loop, cls,
                                  depth + 1)
            if r is None:
                return None, e
            if r is False:
                return False, why
            if loop is not None and loop not in dn.loops:
                # made once, in front of the loop
                return False, dn.ast
        return verdict, e
    return None, e


def r14_12(prog, rep, rid='R14.12'):
    rep.rule(rid, 'the task manager scheduler keeps one record object per '
             'pilot: a value stored as self._pilots[<key that varies with a '
             'loop>] is made in the iteration that stores it (records are '
             'changed in place, so a shared one leaks the state of one pilot '
             'into the others)', minimum=2)
    sc = prog.cls(*TSCHED)
    ATTR = 'self._pilots'
    classes = [sc] + [c for c in prog.subclasses(sc) if c is not sc]
    inplace = None
    sites = []
    for c in classes:
        methods = dict(c.methods)
        al = I.Aliases(prog, c, methods, ATTR)
        for mname, f in sorted(methods.items()):
            for kind, target, stmt in I.stores(f.node, nested=True):
                if not isinstance(target, ast.Subscript) or \
                        isinstance(target.slice, ast.Slice):
                    continue
                # a store into a record (not into the table): the record is
                # named in place or through a local / helper result that
                # refers to it
                if kind in ('assign', 'aug') and \
                        unparse(target.value) != ATTR and \
                        al.is_rooted_expr(mname, target.value):
                    inplace = inplace or (f, stmt)
                if kind == 'assign' and unparse(target.value) == ATTR and \
                        isinstance(stmt, ast.Assign):
                    sites.append((c, f, target.slice, stmt.value, stmt))
            for call in calls_in(f.node):
                if isinstance(call.func, ast.Attribute) and \
                        call.func.attr == 'setdefault' and \
                        unparse(call.func.value) == ATTR and \
                        len(call.args) == 2 and not call.keywords:
                    sites.append((c, f, call.args[0], call.args[1], call))
    if inplace is None:
        rep.info(rid, sc, 'no method changes a record of %s in place: '
                 'shared records would not leak state (not decided)' % ATTR)
        return
    n = 0
    for c, f, key, value, stmt in sites:
        g = cfg_of(f)
        smap = I.stmt_node_map(g)
        node = smap.get(id(stmt))
        if node is None:
            continue
        dd = Deps(f.node, implicit=False)
        kdep = dd.expr_depends(key)
        loop = None
        for h in node.loops:
            hn = g.nodes[h]
            if hn.kind == 'for' and \
                    kdep & set(stores_in_target(hn.ast.target)):
                loop = h
        if loop is None and not kdep & {p for p in f.params if p != 'self'}:
            continue          # one fixed key: one record
        n += 1
        rep.saw(f)
        # (no loop: the key is what the method is called with - the record
        # has to be made by the call)
        scope = 'the running iteration of `for %s in %s`' % (
            short(g.nodes[loop].ast.target, 20),
            short(g.nodes[loop].ast.iter, 30)) if loop is not None \
            else 'the running call of %s' % f.qual
        ok, why = _fresh_value(prog, f, g, smap, value, node.id, loop, c)
        if ok is None:
            raise AnalysisError('UNRECOGNISED-IDIOM %s: cannot tell whether '
                                '`%s` stores a record made in %s (%s)'
                                % (f.where, short(stmt, 60), scope,
                                   short(why, 40)))
        rep.check(ok, rid, f, '%s: `%s` stores a record made in %s'
                  % (f.qual, short(stmt, 50), scope),
                  construct='shared record %s' % short(value, 40),
                  message='%s: `%s` is reached with a different %s in %s, but '
                  'stores one and the same object every time (`%s`: made '
                  'once in front of the loop or kept outside of it) as the '
                  'record of that pilot, and the '
                  'records are changed in place (`%s` in %s): all pilots '
                  'that become known in one bulk share one record - the '
                  'state recorded for one is read and written as the state '
                  'of the others, so the recorded state of a pilot moves '
                  'with its siblings (backwards for the scheduler\'s view of '
                  'that pilot, and into a final state it never reached)'
                  % (f.qual, short(stmt, 60), short(key, 20),
                     scope.replace('the running', 'every'),
                     short(why, 60), short(inplace[1], 50), inplace[0].qual),
                  loc=f.loc(stmt),
                  history='one bulk [{p1: PMGR_LAUNCHING}, {p2: PMGR_ACTIVE}] '
                  'with both pilots unknown so far: p1 and p2 get the same '
                  'record, which says PMGR_ACTIVE for both; p1: '
                  'PMGR_ACTIVE_PENDING is dropped as late and the scheduler '
                  'is never told; p2 ends DONE: p1 is recorded DONE as well '
                  '(a FAILED p1 is even `corrected` to DONE)')
    if not n:
        raise AnalysisError('UNRECOGNISED-IDIOM %s: no store of a record '
                            '`%s[<key of a loop>] = ..` found in the '
                            'scheduler classes' % (sc.where, ATTR))


# ------------------------------------------------------------------------------
# R14.13  a record that exists is not replaced.  The recorded state of a pilot
# lives in the record `self._pilots[pid]`; R14.10 decides the only store of
# its 'state' item.  Storing a *whole* record under a key (or deleting the
# record) writes the state as well: that is right only where the table is
# known not to hold a record for that key (`pid not in self._pilots`, the
# `.get(pid)` that returned None) - for a record that exists the state the
# scheduler learned from the state notifications is thrown away.
#
def _absent_edges(f, g, key_txt, ATTR):
    """[(test node id, label)]: branch edges on which `ATTR` is known to hold
    no (usable) record for the key spelled key_txt"""
    out = []

    def lookup(e):
        # ATTR.get(key) / ATTR.get(key, None)
        return isinstance(e, ast.Call) and \
            isinstance(e.func, ast.Attribute) and e.func.attr == 'get' and \
            unparse(e.func.value) == ATTR and not e.keywords and \
            1 <= len(e.args) <= 2 and unparse(e.args[0]) == key_txt and \
            (len(e.args) == 1 or (isinstance(e.args[1], ast.Constant) and
                                  e.args[1].value is None))

    def looked_up(e, at):
        if lookup(e):
            return True
        if isinstance(e, ast.Name) and e.id not in f.params:
            ds = reaching_defs(g, e.id, at)
            return bool(ds) and all(v is not None and lookup(v)
                                    for _, v in ds)
        return False

    flip = {'T': 'F', 'F': 'T'}

    def classify(t, at, depth=0):
        """label of the edge on which no record is there, or None"""
        lab = 'T'
        while isinstance(t, ast.UnaryOp) and isinstance(t.op, ast.Not):
            t, lab = t.operand, flip[lab]
        if isinstance(t, ast.Compare) and len(t.ops) == 1:
            op, a, b = t.ops[0], t.left, t.comparators[0]
            if isinstance(op, (ast.In, ast.NotIn)) and \
                    unparse(a) == key_txt and \
                    unparse(b) in (ATTR, ATTR + '.keys()'):
                return lab if isinstance(op, ast.NotIn) else flip[lab]
            if isinstance(op, (ast.Is, ast.IsNot, ast.Eq, ast.NotEq)) and \
                    isinstance(b, ast.Constant) and b.value is None and \
                    looked_up(a, at):
                return lab if isinstance(op, (ast.Is, ast.Eq)) else flip[lab]
            return None
        if looked_up(t, at):
            # `if record:` - a record is a non-empty dict
            return flip[lab]
        if isinstance(t, ast.Name) and t.id not in f.params and depth < 3:
            # a flag: `known = pid in self._pilots`
            ds = reaching_defs(g, t.id, at)
            if len(ds) == 1 and isinstance(ds[0][1], (ast.Compare,
                                                      ast.UnaryOp)):
                r = classify(ds[0][1], ds[0][0].id, depth + 1)
                if r:
                    return r if lab == 'T' else flip[r]
        return None

    for n in g.nodes:
        if n.kind != 'test' or n.ast is None:
            continue
        r = classify(n.ast, n.id)
        if r:
            out.append((n.id, r))
    return out


def _record_value(prog, f, g, e, at, key_txt, ATTR, cls, depth=0):
    """what a value stored as a whole record says about the recorded state:
    'old'   - it is the record the table holds for the key (if there is one),
    'fixed' - a new record whose content does not come from the old one,
    None    - cannot be told"""
    if depth > 4:
        return None

    def below(x):
        return any(isinstance(y, ast.Attribute) and unparse(y) == ATTR
                   for y in ast.walk(x))

    if isinstance(e, (ast.Subscript, ast.Call)) and below(e):
        if isinstance(e, ast.Subscript) and unparse(e.value) == ATTR and \
                unparse(e.slice) == key_txt:
            return 'old'
        if isinstance(e, ast.Call) and isinstance(e.func, ast.Attribute) and \
                e.func.attr in ('get', 'setdefault') and e.args and \
                unparse(e.func.value) == ATTR and \
                unparse(e.args[0]) == key_txt:
            rest = [_record_value(prog, f, g, x, at, key_txt, ATTR, cls,
                                  depth + 1) for x in e.args[1:]]
            return 'old' if all(r in ('old', 'fixed') for r in rest) else None
        return None
    if isinstance(e, ast.BoolOp) and isinstance(e.op, ast.Or):
        rs = [_record_value(prog, f, g, x, at, key_txt, ATTR, cls, depth + 1)
              for x in e.values]
        if rs[0] == 'old' and all(r in ('old', 'fixed') for r in rs):
            return 'old'
        return None
    if isinstance(e, (ast.Dict, ast.DictComp)):
        return None if below(e) else 'fixed'
    if isinstance(e, ast.Call):
        if below(e):
            return None
        if call_name(e) in ('dict', 'ru.Config', 'ru.TypedDict'):
            return 'fixed'
        try:
            callee = prog.resolve_call(f, e, cls)
        except Exception:
            callee = None
        if callee is not None and depth < 3:
            rets = [n for n in walk(callee.node) if isinstance(n, ast.Return)]
            if rets and all(isinstance(r.value, (ast.Dict, ast.DictComp)) and
                            not below(r.value) for r in rets):
                return 'fixed'
        return None
    if isinstance(e, ast.Name) and e.id not in f.params:
        ds = reaching_defs(g, e.id, at)
        if not ds or any(v is None for _, v in ds):
            return None
        rs = {_record_value(prog, f, g, v, dn.id, key_txt, ATTR, cls,
                            depth + 1) for dn, v in ds}
        return rs.pop() if len(rs) == 1 else None
    return None


def r14_13(prog, rep, rid='R14.13'):
    rep.rule(rid, 'the task manager scheduler stores a whole record '
             '`self._pilots[pid] = ..` (or deletes one) only where the table '
             'is known to hold no record for that pilot: the record carries '
             'the state recorded from the notifications, which only '
             '_update_pilot_states may change', minimum=1)
    sc = prog.cls(*TSCHED)
    ATTR = 'self._pilots'
    classes = [sc] + [c for c in prog.subclasses(sc) if c is not sc]
    n = 0
    seen = set()
    for c in classes:
        for mname, f in sorted(c.methods.items()):
            if id(f.node) in seen or mname == '__init__':
                continue
            seen.add(id(f.node))
            sites = []          # (stmt, key expr | None, value expr | None)
            for kind, target, stmt in I.stores(f.node, nested=True):
                if kind == 'assign' and isinstance(target, ast.Subscript) \
                        and unparse(target.value) == ATTR and \
                        not isinstance(target.slice, ast.Slice):
                    v = stmt.value if isinstance(stmt, ast.Assign) and \
                        len(stmt.targets) == 1 and \
                        stmt.targets[0] is target else None
                    sites.append((stmt, target.slice, v, 'store'))
                elif kind == 'del' and isinstance(target, ast.Subscript) and \
                        unparse(target.value) == ATTR:
                    sites.append((stmt, target.slice, None, 'del'))
                elif kind == 'mutate' and unparse(target) == ATTR:
                    attr = stmt.func.attr
                    if attr in ('pop', '__delitem__') and stmt.args:
                        sites.append((stmt, stmt.args[0], None, 'del'))
                    elif attr in ('clear', 'popitem'):
                        sites.append((stmt, None, None, 'del'))
                    elif attr == 'setdefault' and stmt.args:
                        sites.append((stmt, stmt.args[0], None, 'keep'))
                    elif attr == '__setitem__' and len(stmt.args) == 2:
                        sites.append((stmt, stmt.args[0], stmt.args[1],
                                      'store'))
                    elif attr == 'update':
                        a = stmt.args[0] if len(stmt.args) == 1 and \
                            not stmt.keywords else None
                        if isinstance(a, ast.Dict) and len(a.keys) == 1 and \
                                a.keys[0] is not None:
                            sites.append((stmt, a.keys[0], a.values[0],
                                          'store'))
                        else:
                            raise AnalysisError(
                                'UNRECOGNISED-IDIOM %s: `%s` stores records '
                                'in bulk' % (f.where, short(stmt, 60)))
            if not sites:
                continue
            g = cfg_of(f)
            for stmt, key, value, what in sites:
                node = I.enclosing_stmt_node(g, stmt)
                if node is None:
                    continue          # nested function: not followed
                n += 1
                rep.saw(f)
                key_txt = unparse(key) if key is not None else None
                if what == 'keep':
                    rep.ok(rid, f, '`%s` keeps the record the table holds '
                           'for %s' % (short(stmt, 50), key_txt), f.loc(stmt))
                    continue
                guarded = False
                if key_txt is not None:
                    ab = _absent_edges(f, g, key_txt, ATTR)
                    names = {x.id for x in ast.walk(key)
                             if isinstance(x, ast.Name)}
                    ok_edges = []
                    for tid, lab in ab:
                        same = all(
                            {d.id for d, _ in reaching_defs(g, nm, tid)} ==
                            {d.id for d, _ in reaching_defs(g, nm, node.id)}
                            for nm in names)
                        if same:
                            ok_edges.append((tid, lab))
                    guarded = bool(ok_edges) and node.id not in g.reachable(
                        g.entry.id, skip_edges=ok_edges)
                if guarded:
                    rep.ok(rid, f, '`%s` runs only where %s holds no record '
                           'for %s' % (short(stmt, 50), ATTR, key_txt),
                           f.loc(stmt))
                    continue
                kind = 'fixed' if what == 'del' else _record_value(
                    prog, f, g, value, node.id, key_txt, ATTR, c) \
                    if value is not None else None
                if kind == 'old':
                    rep.ok(rid, f, '`%s` stores the record the table holds '
                           'already' % short(stmt, 50), f.loc(stmt))
                    continue
                if kind is None:
                    raise AnalysisError(
                        'UNRECOGNISED-IDIOM %s: `%s` stores a record for a '
                        'pilot that may have one already, and the value '
                        'cannot be related to the old record'
                        % (f.where, short(stmt, 60)))
                does = 'removes the record of the pilot' if what == 'del' \
                    else 'stores a new record for the pilot'
                rep.bad(rid, f, '%s record %s' % (
                    'dropped' if what == 'del' else 'replaced',
                    short(value if value is not None else stmt, 40)),
                    '%s: `%s` %s on a path on which nothing tests that %s '
                    'holds no record for `%s` yet.  The record of a known '
                    'pilot carries the state the scheduler recorded from the '
                    'state notifications (item \'state\', written by '
                    '_update_pilot_states through _pilot_state_progress); '
                    'it is thrown away here, and the next thing recorded is '
                    'whatever arrives next - the older snapshot that travels '
                    'with the command, or a late notification: the '
                    'scheduler\'s view of the pilot moves backwards and can '
                    'leave a final state'
                    % (f.qual, short(stmt, 60), does, ATTR,
                       key_txt or 'any pilot'),
                    f.loc(stmt),
                    history='state notification PMGR_ACTIVE (or FAILED) for '
                    'a pilot reaches the scheduler before the add_pilots '
                    'command that carries the snapshot PMGR_LAUNCHING of the '
                    'same pilot: %s runs for the known pilot, the record '
                    'says None again, _update_pilot_states records '
                    'PMGR_LAUNCHING after PMGR_ACTIVE (a FAILED pilot is '
                    'scheduled on again)' % f.qual)
    if n < 1:
        raise AnalysisError('UNRECOGNISED-IDIOM %s: no store of a whole '
                            'record `%s[..] = ..` in the scheduler classes'
                            % (sc.where, ATTR))


# ------------------------------------------------------------------------------
# R14.3  final cause is not killed
#
def cause_defs(prog, agent):
    """[(FuncInfo, assign stmt, literal)] for self._final_cause = <literal>"""
    out = []
    for mname, f in sorted(agent.methods.items()):
        for kind, target, stmt in I.stores(f.node, nested=True):
            if _key_of(target) != CAUSE:
                continue
            v = prog.fold(f.module, stmt.value, f.cls) \
                if kind == 'assign' and isinstance(stmt, ast.Assign) else UNK
            out.append((f, stmt, v))
    return out


def cause_call_sites(prog, agent, m, nested=True):
    """[(caller FuncInfo, call)]: self / super() calls in the methods along
    the MRO of agent that resolve to method m for an Agent_0 instance (this
    includes the base class code that calls an overridden method)"""
    out = []
    for k in prog.mro(agent):
        for mn, f in sorted(k.methods.items()):
            for c in calls_in(f.node, nested=nested):
                if not (isinstance(c.func, ast.Attribute) and
                        c.func.attr == m.name):
                    continue
                try:
                    g = prog.resolve_call(f, c, agent)
                except Exception:
                    g = None
                if g is m:
                    out.append((f, c))
    return out


def cause_params(f, stmts):
    """parameters of f which the values stored by stmts are computed from"""
    from ..flow import Deps
    deps = Deps(f.node, nested=False, implicit=False)
    read = set()
    for s in stmts:
        v = getattr(s, 'value', None)
        if v is not None:
            read |= set(deps.expr_depends(v))
    return [p for p in f.params if p not in ('self', 'cls') and p in read]


def site_names_cause(m, call, ps):
    """the call passes a value for one of the parameters ps of m"""
    a = m.node.args
    pos = [x.arg for x in a.posonlyargs + a.args]
    if pos and pos[0] in ('self', 'cls'):
        pos = pos[1:]
    for i, x in enumerate(call.args):
        if isinstance(x, ast.Starred):
            return True
        if i < len(pos) and pos[i] in ps:
            return True
        if i >= len(pos) and a.vararg and a.vararg.arg in ps:
            return True
    for kw in call.keywords:
        if kw.arg is None or kw.arg in ps or \
                (a.kwarg and a.kwarg.arg in ps):
            return True
    return False


def _bound_args(g, call):
    """[(parameter name of g, argument expression)] of a self call"""
    a = g.node.args
    pos = [x.arg for x in a.posonlyargs + a.args]
    if pos and pos[0] in ('self', 'cls'):
        pos = pos[1:]
    names = set(pos) | {x.arg for x in a.kwonlyargs}
    out = []
    for i, x in enumerate(call.args):
        if i < len(pos) and not isinstance(x, ast.Starred):
            out.append((pos[i], x))
    for kw in call.keywords:
        if kw.arg in names:
            out.append((kw.arg, kw.value))
    return out


def cause_params_trans(prog, agent, m, depth=3, _seen=()):
    """parameters of m which the cause stored by m - or by a self callee m
    hands them to - is computed from"""
    from ..flow import Deps
    own = [stmt for kind, target, stmt in I.stores(m.node)
           if _key_of(target) == CAUSE and kind == 'assign' and
           isinstance(stmt, ast.Assign) and
           prog.fold(m.module, stmt.value, m.cls) is UNK]
    ps = set(cause_params(m, own))
    if depth <= 0:
        return ps
    deps = None
    for c in calls_in(m.node):
        fn = c.func
        if not (isinstance(fn, ast.Attribute) and (
                (isinstance(fn.value, ast.Name) and fn.value.id == 'self') or
                (isinstance(fn.value, ast.Call) and
                 isinstance(fn.value.func, ast.Name) and
                 fn.value.func.id == 'super'))):
            continue
        try:
            g = prog.resolve_call(m, c, agent)
        except Exception:
            g = None
        if g is None or g is m or id(g.node) in _seen:
            continue
        gp = cause_params_trans(prog, agent, g, depth - 1,
                                _seen + (id(m.node),))
        if not gp:
            continue
        deps = deps or Deps(m.node, nested=False, implicit=False)
        for pname, expr in _bound_args(g, c):
            if pname in gp:
                read = set(deps.expr_depends(expr))
                ps |= {p for p in m.params
                       if p not in ('self', 'cls') and p in read}
    return ps


def site_cause(prog, agent, caller, call, m):
    """cause values m leaves behind when it is entered through this call
    (arguments / defaults bound) and no cause was recorded before"""
    ip = Interp(prog, agent, track=[CAUSE])
    cenv = ip._bind(caller, call, m, {CAUSE: None})
    exits = ip.run(m, cenv, inlined=True)
    return {unsym(thaw(dict(fe).get(CAUSE, UNK))) for fe in exits} - {None}


def effective_cause(prog, agent, f):
    """cause values method f leaves behind (through resolved self calls)
    when no cause was recorded before"""
    ip = Interp(prog, agent, track=[CAUSE])
    exits = ip.run(f, {CAUSE: None})
    return {unsym(thaw(dict(fe).get(CAUSE, UNK))) for fe in exits} - {None}


def cause_states(prog, agent, fin):
    """state_of(cause) -> frozenset of states finalize writes into the signal
    file for that cause (UNK inside if it cannot be evaluated)"""
    table = {}

    def state_of(c):
        if c is UNK:
            return frozenset([UNK])
        if c not in table:
            try:
                table[c] = frozenset(eval_finalize(prog, agent, fin, c)
                                     ['file'])
            except AnalysisError:
                table[c] = frozenset([UNK])
        return table[c]
    return state_of


def r14_3(prog, rep, rid='R14.3'):
    rep.rule(rid, 'a termination cause recorded in self._final_cause (by a '
             'literal assignment, or by the argument / default a call hands '
             'to a method that stores its parameter) is not replaced, on the '
             'way out of the method that records it (through resolved self '
             'calls), by a cause that finalize maps to a different final '
             'state', minimum=3)
    agent = prog.cls(*AGENT)
    fin = prog.method(AGENT[0], AGENT[1], 'finalize')
    defs = cause_defs(prog, agent)
    state_of = cause_states(prog, agent, fin)

    def check_def(f, anchor, lit, via=None):
        """the cause lit recorded at `anchor` (assignment, or call of the
        recording method `via`) in f survives to the end of f"""
        g = cfg_of(f)
        smap = I.stmt_node_map(g)
        node = smap.get(id(anchor))
        if node is None:
            raise AnalysisError('R14.3: no CFG node for %s in %s'
                                % (short(anchor), f.where))
        ip = Interp(prog, agent, track=[CAUSE], symbolic=True)
        exits = ip.run(f, {} if via is None else {CAUSE: None},
                       start=node.id)
        rep.stat('interp_states', ip.states)
        want = state_of(lit)

        def keeps(v):
            return v is UNK or v == lit or UNK in state_of(v) or \
                bool(state_of(v) & want)

        allv, who_all = set(), set()
        killv, who_kill = set(), set()
        for fe in exits:
            d = dict(fe)
            v = unsym(thaw(d.get(CAUSE, UNK)))
            allv.add(v)
            who_all.add(d.get(CAUSE + '@', '?'))
            # a path all of whose tests were decided, or are functions of
            # the arguments the assigning method passes to its callee
            if not d.get('@c') and not keeps(v):
                killv.add(v)
                who_kill.add(d.get(CAUSE + '@', '?'))
        every = bool(exits) and UNK not in want and \
            not any(keeps(v) for v in allv)
        survived = not every and not (killv and UNK not in want)
        vals, who = (allv, who_all) if every else (killv or allv,
                                                   who_kill or who_all)
        how = 'on every path to its return' if every else \
            'on a path to its return whose branch conditions are all ' \
            'decided by the values at hand (or by the arguments of the ' \
            'call it makes)'
        got = sorted({x for v in vals if v is not UNK for x in state_of(v)
                      if x is not UNK})
        does = 'assigns' if via is None else \
            'records through `%s` (%s stores its parameter)' % (
                short(anchor, 40), via.qual)
        rep.check(survived, rid, f,
                  'cause %r %s in %s reaches the end of the method '
                  '(or is replaced by one with the same final state)'
                  % (lit, 'assigned' if via is None else 'handed to %s'
                     % via.qual, f.qual), construct=anchor,
                  message='%s %s the cause %r (final state %s) and then, '
                  '%s, the cause is overwritten (%s; '
                  'final value %s): Agent_0.finalize does not see %r and '
                  'reports %s instead'
                  % (f.qual, does, lit, '/'.join(sorted(map(str, want))), how,
                     '; '.join(sorted(who)),
                     '/'.join(repr(v) for v in sorted(vals, key=repr)), lit,
                     '/'.join(got)),
                  loc=f.loc(anchor),
                  history='the agent terminates for the reason %r (via %s): '
                  'finalize reads %s and writes %s instead of %s into '
                  'killme.signal and the final state update'
                  % (lit, f.qual, '/'.join(repr(v) for v in
                                           sorted(vals, key=repr)),
                     '/'.join(got), '/'.join(sorted(map(str, want)))))

    def expand(m, depth):
        """(caller, call, constant cause or None, recording method) per call
        site of the parameterised recorder m; a caller that only hands its
        own parameter on is expanded to its callers"""
        for caller, call in cause_call_sites(prog, agent, m, nested=False):
            vals = site_cause(prog, agent, caller, call, m)
            known = [v for v in vals if v is not UNK]
            if len(vals) == 1 and known:
                yield caller, call, known[0], m
            elif depth > 0 and cause_params_trans(prog, agent, caller):
                yield from expand(caller, depth - 1)
            else:
                yield caller, call, None, m

    n = 0
    for f, stmt, lit in defs:
        if f.name == '__init__':
            continue
        n += 1
        rep.saw(f)
        if lit is not UNK:
            check_def(f, stmt, lit)
            continue
        # the stored value is computed from parameters: one definition per
        # call site (explicit argument or default)
        sites = list(expand(f, 3)) if cause_params(f, [stmt]) else []
        if not sites:
            rep.ok(rid, f, 'cause assigned from a non-constant expression in '
                   '%s: followed by value from the callers' % f.qual,
                   f.loc(stmt))
            continue
        for caller, call, val, via in sites:
            rep.saw(caller)
            if val is None:
                rep.ok(rid, caller, 'cause handed to %s by `%s` is not one '
                       'constant' % (via.qual, short(call, 40)),
                       caller.loc(call))
                continue
            check_def(caller, call, val, via=via)
    rep.stat('cause_definitions', n)
    return defs


# ------------------------------------------------------------------------------
# R14.8  the shared shutdown path keeps a recorded cause
#
def r14_8(prog, rep, rid='R14.8'):
    rep.rule(rid, 'a method of Agent_0 that records a termination cause and '
             'is entered from several places (the shared shutdown path: it '
             'runs again when the next stop request arrives) keeps a cause '
             'that is already recorded, for every call that does not name a '
             'cause of its own (no argument for the stored parameter)',
             minimum=2)
    agent = prog.cls(*AGENT)
    fin = prog.method(AGENT[0], AGENT[1], 'finalize')
    state_of = cause_states(prog, agent, fin)
    defs = cause_defs(prog, agent)
    lits = {}
    for f, stmt, lit in defs:
        if f.name != '__init__':
            lits.setdefault(id(f.node), []).append((stmt, lit))
    # every method an Agent_0 instance has that records a cause, itself or
    # through the self calls it makes
    probe = Interp(prog, agent, track=[CAUSE])
    info = {}
    for k in prog.mro(agent):
        for mn, m in sorted(k.methods.items()):
            if mn == '__init__' or id(m.node) in info or \
                    not probe.may_write(m):
                continue
            sites = cause_call_sites(prog, agent, m, nested=True)
            ps = cause_params_trans(prog, agent, m)
            info[id(m.node)] = (m, lits.get(id(m.node), []), sites, ps)
    # the causes that are recorded for a reason: literal assignments and
    # arguments named by a caller
    causes = {}
    for key, (m, ws, sites, ps) in sorted(info.items(),
                                          key=lambda kv: kv[1][0].qual):
        for stmt, lit in ws:
            if lit is not UNK and lit is not None:
                causes.setdefault(lit, '%s (`%s`)' % (m.qual,
                                                      short(stmt, 40)))
        for caller, call in sites:
            if ps and site_names_cause(m, call, ps):
                for v in site_cause(prog, agent, caller, call, m):
                    if v is not UNK and v is not None:
                        causes.setdefault(v, '%s (`%s`)' % (
                            caller.qual, short(call, 40)))
    n_shared = 0
    for key, (m, ws, sites, ps) in sorted(info.items(),
                                          key=lambda kv: kv[1][0].qual):
        callers = {id(c.node) for c, _ in sites}
        if len(callers) < 2:
            rep.info(rid, m, '%s records a cause and has %d calling '
                     'method(s): the handler of one specific reason, not a '
                     'shared path' % (m.qual, len(callers)), m.loc())
            continue
        n_shared += 1
        rep.saw(m)
        for caller, call in sites:
            where = '%s (`%s`)' % (caller.qual, short(call, 40))
            if ps and site_names_cause(m, call, ps):
                rep.ok(rid, m, '%s entered from %s with a cause of its own'
                       % (m.qual, where), caller.loc(call))
                continue
            bad = None
            for c in sorted(causes, key=repr):
                want = state_of(c)
                if UNK in want:
                    continue
                ip = Interp(prog, agent, track=[CAUSE], symbolic=True)
                cenv = ip._bind(caller, call, m, {CAUSE: c})
                exits = ip.run(m, cenv, inlined=True)
                rep.stat('interp_states', ip.states)

                def keeps(v):
                    return v is UNK or v == c or UNK in state_of(v) or \
                        bool(state_of(v) & want)
                vals = [(unsym(thaw(dict(fe).get(CAUSE, UNK))),
                         bool(dict(fe).get('@c'))) for fe in exits]
                lost = [v for v, und in vals if not keeps(v)]
                decided = [v for v, und in vals if not und and not keeps(v)]
                if decided or (vals and len(lost) == len(vals)):
                    bad = bad or (c, sorted(set(decided or lost), key=repr))
            got = sorted({x for v in (bad[1] if bad else [])
                          for x in state_of(v) if x is not UNK}, key=str)
            rep.check(bad is None, rid, m, '%s entered from %s, which names '
                      'no cause, keeps a recorded cause' % (m.qual, where),
                      construct='reentry:%s' % caller.qual,
                      message='%s stores a cause without testing that none '
                      'is recorded yet, and it is a shared path (called '
                      'from %s): entered from %s - which names no cause, so '
                      'the default / fallback applies - after the cause %r '
                      '(final state %s, recorded by %s), it leaves %s '
                      'behind: Agent_0.finalize reports %s instead of %s'
                      % ((m.qual, ', '.join(sorted({c_.qual for c_, _ in
                                                    sites})), where, bad[0],
                          '/'.join(sorted(map(str, state_of(bad[0])))),
                          causes[bad[0]],
                          '/'.join(map(repr, bad[1])), '/'.join(got),
                          '/'.join(sorted(map(str, state_of(bad[0])))))
                         if bad else (m.qual, '', where, '', '', '', '', '',
                                      '')),
                      loc=m.loc(),
                      history='the agent ends for the reason %r (%s); before '
                      'finalize reads the cause another stop request arrives '
                      'through %s (e.g. the `terminate` command the client '
                      'publishes when it closes its session): the cause '
                      'becomes %s and the pilot ends %s instead of %s'
                      % ((bad[0], causes[bad[0]], where,
                          '/'.join(map(repr, bad[1])), '/'.join(got),
                          '/'.join(sorted(map(str, state_of(bad[0])))))
                         if bad else ('', '', where, '', '', '')))
    if not n_shared:
        raise AnalysisError('R14.8: no method of Agent_0 that records a '
                            'cause is called from two methods (the shared '
                            'stop path is gone or changed shape)')


# ------------------------------------------------------------------------------
# R14.14  CANCELED only for a request that names this pilot.  Control messages
# are broadcast: every agent of the session sees every `cancel_pilots`
# request.  A handler of a control message may record a cause that finalize
# maps to CANCELED (or call the method that records it) only on paths on which
# a test relating a value of the agent itself (its pilot id) to the content of
# the message (`self._pid in arg['uids']`, `uid == self._pid`) came out as
# `this pilot is named`.
#
def _is_self_call(c):
    fn = c.func
    return isinstance(fn, ast.Attribute) and (
        (isinstance(fn.value, ast.Name) and fn.value.id == 'self') or
        (isinstance(fn.value, ast.Call) and
         isinstance(fn.value.func, ast.Name) and
         fn.value.func.id == 'super'))


def _msg_handlers(prog, agent, ctl, depth=3):
    """{id(f.node): [f, message parameters]} for the control callback and the
    self callees it hands (a part of) the message to"""
    out = {}

    def visit(f, mps, d):
        k = id(f.node)
        if k in out and mps <= out[k][1]:
            return
        out.setdefault(k, [f, set()])[1].update(mps)
        if d <= 0:
            return
        deps = Deps(f.node, nested=False, implicit=False)
        for c in calls_in(f.node):
            if not _is_self_call(c):
                continue
            try:
                g = prog.resolve_call(f, c, agent)
            except Exception:
                g = None
            if g is None or g is f:
                continue
            ps = {pn for pn, x in _bound_args(g, c)
                  if set(deps.expr_depends(x)) & out[k][1]}
            if ps:
                visit(g, ps, d - 1)
    visit(ctl, {p for p in ctl.params if p not in ('self', 'cls')}, depth)
    return out


def _named_edges(f, g, mps):
    """([(test node id, label)], [opaque test asts]): the branch edges of f
    taken when a value of the agent is found in / equal to a value of the
    message, and the tests on the message that cannot be classified"""
    deps = Deps(f.node, nested=False, implicit=False)

    def of_msg(e):
        return bool(set(deps.expr_depends(e)) & mps)

    def own(e):
        return not isinstance(e, ast.Constant) and not of_msg(e) and any(
            isinstance(x, ast.Attribute) and isinstance(x.value, ast.Name)
            and x.value.id == 'self' for x in ast.walk(e)) or (
            isinstance(e, ast.Name) and not of_msg(e) and
            any(str(r).startswith('self.') for r in deps.expr_depends(e)))

    def classify(t, at, depth=0):
        """label of the edge `named`, 'opaque', or None (not about the
        addressee)"""
        lab = 'T'
        while isinstance(t, ast.UnaryOp) and isinstance(t.op, ast.Not):
            t, lab = t.operand, ('F' if lab == 'T' else 'T')
        flip = {'T': 'F', 'F': 'T'}
        if isinstance(t, ast.Compare) and len(t.ops) == 1:
            op, a, b = t.ops[0], t.left, t.comparators[0]
            if isinstance(op, (ast.In, ast.NotIn)) and own(a) and of_msg(b):
                return lab if isinstance(op, ast.In) else flip[lab]
            if isinstance(op, (ast.Eq, ast.NotEq)) and (
                    (own(a) and of_msg(b)) or (own(b) and of_msg(a))):
                return lab if isinstance(op, ast.Eq) else flip[lab]
        if isinstance(t, ast.Name) and t.id not in f.params and depth < 3:
            ds = reaching_defs(g, t.id, at)
            v = ds[0][1] if len(ds) == 1 else None
            if isinstance(v, ast.Call) and call_name(v) == 'bool' and \
                    len(v.args) == 1 and not v.keywords:
                v = v.args[0]
            if isinstance(v, ast.BoolOp):
                # flag = a and b: the flag holds only if every part does;
                # flag = a or b: it fails only if every part does
                want = 'T' if isinstance(v.op, ast.And) else 'F'
                rs = [classify(x, ds[0][0].id, depth + 1) for x in v.values]
                if want in rs:
                    return want if lab == 'T' else flip[want]
                return 'opaque' if 'opaque' in rs else None
            if isinstance(v, (ast.Compare, ast.UnaryOp, ast.Call)):
                r = classify(v, ds[0][0].id, depth + 1)
                if r in ('T', 'F'):
                    return r if lab == 'T' else flip[r]
                return r
        if of_msg(t) and any(isinstance(x, ast.Call) and _is_self_call(x)
                             for x in ast.walk(t)):
            return 'opaque'
        return None

    edges, opaque = [], []
    for n in g.nodes:
        if n.kind != 'test' or n.ast is None:
            continue
        r = classify(n.ast, n.id)
        if r == 'opaque':
            opaque.append(n.ast)
        elif r:
            edges.append((n.id, r))
    return edges, opaque


def r14_14(prog, rep, rid='R14.14'):
    rep.rule(rid, 'a handler of a control message (Agent_0.control_cb and '
             'the methods it hands the message to) records a cause that '
             'finalize maps to CANCELED - or calls the method that records '
             'it - only on paths on which a test of the agent\'s own id '
             'against the content of the message found this pilot named',
             minimum=1)
    agent = prog.cls(*AGENT)
    fin = prog.method(AGENT[0], AGENT[1], 'finalize')
    ctl = prog.method(AGENT[0], AGENT[1], 'control_cb')
    state_of = cause_states(prog, agent, fin)
    canceled = prog.const(STATES, 'CANCELED')
    handlers = _msg_handlers(prog, agent, ctl)
    probe = Interp(prog, agent, track=[CAUSE])
    eff = {}

    def cancels(lit):
        st = state_of(lit)
        return lit is not UNK and lit is not None and UNK not in st and \
            bool(st) and st <= {canceled}

    def recorder(caller, call, m):
        """the method, entered through this call (arguments / defaults
        bound) with no cause recorded, leaves one that means CANCELED"""
        k = id(m.node)
        if k not in eff:
            eff[k] = m.name != '__init__' and probe.may_write(m)
        return eff[k] and any(cancels(v) for v in
                              site_cause(prog, agent, caller, call, m))

    memo = {}

    def open_sites(f):
        """[(function, stmt)] cause records below f that are reached from the
        entry of f without taking an edge `this pilot is named`; second
        value: all candidate sites of f"""
        k = id(f.node)
        if k in memo:
            return memo[k]
        memo[k] = ([], [])                       # recursion: nothing new
        mps = handlers[k][1]
        g = cfg_of(f)
        cand = []                                # (cfg node, stmt, leaves)
        for kind, target, stmt in I.stores(f.node):
            if _key_of(target) == CAUSE and kind == 'assign' and \
                    isinstance(stmt, ast.Assign) and \
                    cancels(prog.fold(f.module, stmt.value, f.cls)):
                cand.append((stmt, [(f, stmt)]))
        for c in calls_in(f.node):
            if not _is_self_call(c):
                continue
            try:
                m = prog.resolve_call(f, c, agent)
            except Exception:
                m = None
            if m is None or m is f:
                continue
            if id(m.node) in handlers:
                sub = open_sites(m)[0]
                if sub:
                    cand.append((c, sub))
            elif recorder(f, c, m):
                cand.append((c, [(f, c)]))
        if not cand:
            memo[k] = ([], [])
            return memo[k]
        edges, opaque = _named_edges(f, g, mps)
        free = g.reachable(g.entry.id, skip_edges=edges)
        out, allc = [], []
        for anchor, leaves in cand:
            node = I.enclosing_stmt_node(g, anchor)
            if node is None:
                continue
            allc += leaves
            if node.id in free:
                if opaque:
                    raise AnalysisError(
                        'UNRECOGNISED-IDIOM %s: whether `%s` runs only for a '
                        'message that names this pilot is decided by `%s`, '
                        'which is not followed'
                        % (f.where, short(anchor, 40), short(opaque[0], 40)))
                out += leaves
        memo[k] = (out, allc)
        return memo[k]

    bad, _ = open_sites(ctl)
    badk = {(id(f.node), id(s)) for f, s in bad}
    seen = set()
    n = 0
    for k, (f, mps) in sorted(handlers.items(), key=lambda kv: kv[1][0].qual):
        for hf, stmt in memo.get(k, ([], []))[1]:
            key = (id(hf.node), id(stmt))
            if key in seen or hf is not f:
                continue
            seen.add(key)
            n += 1
            rep.saw(hf)
            rep.check(key not in badk, rid, hf,
                      '%s: `%s` (cause that means CANCELED) runs only for a '
                      'control message that names this pilot'
                      % (hf.qual, short(stmt, 40)),
                      construct=stmt,
                      message='%s: `%s` records a termination cause that '
                      'Agent_0.finalize maps to CANCELED, and it is reached '
                      'from the entry of %s on a path that never takes the '
                      '`is named` branch of a test of the agent\'s own id '
                      'against the pilots listed in the message (%s).  '
                      'Control messages are broadcast to all agents of the '
                      'session: a request that does not name this pilot (an '
                      'empty or missing list, the uids of other pilots) '
                      'makes this agent stop and report CANCELED although '
                      'nobody canceled it'
                      % (hf.qual, short(stmt, 50), ctl.qual,
                         'message parameters: %s' % ', '.join(sorted(mps))),
                      loc=hf.loc(stmt),
                      history='PilotManager.cancel_pilots() of a second '
                      'pilot manager that has no pilots (session close) '
                      'publishes {cmd: cancel_pilots, arg: {uids: []}}: the '
                      'agent of a running pilot of the first manager records '
                      '\'cancel\', stops and ends CANCELED instead of DONE '
                      'at its run time limit')
    if not n:
        raise AnalysisError('UNRECOGNISED-IDIOM %s: no handler of a control '
                            'message records a cause that means CANCELED '
                            '(the cancel_pilots handler is gone or changed '
                            'shape)' % ctl.where)


# ------------------------------------------------------------------------------
# R14.4 / R14.5  cause -> state table, killme.signal contract
#
def _open_call(w):
    """(path, mode, as-name) of `with <open>(path, mode) as name`"""
    for it in w.items:
        c = it.context_expr
        if isinstance(c, ast.Call) and call_name(c).split('.')[-1] in \
                ('ru_open', 'open') and c.args and \
                isinstance(c.args[0], ast.Constant) and \
                isinstance(c.args[0].value, str):
            mode = kwarg(c, 'mode', 1)
            mode = mode.value if isinstance(mode, ast.Constant) else 'r'
            name = it.optional_vars.id if isinstance(it.optional_vars,
                                                     ast.Name) else None
            return c.args[0].value, mode, name
    return None


def finalize_sinks(prog, fin):
    """(write calls into the signal file [(call, path)], advance calls)"""
    writes, advs = [], []
    for w in walk(fin.node):
        if isinstance(w, ast.With):
            oc = _open_call(w)
            if not oc or 'w' not in oc[1] and 'a' not in oc[1]:
                continue
            path, mode, name = oc
            if not path.endswith('.signal'):
                continue
            for c in calls_in(w):
                if name and call_name(c) == name + '.write' and c.args:
                    writes.append((c, path, mode))
    for c in calls_in(fin.node):
        if I.is_handon(c):
            advs.append(c)
    return writes, advs


def eval_finalize(prog, agent, fin, lit):
    """{'file': states written to the signal file, 'update': states of the
    final update, 'states': product states visited} for cause value lit"""
    writes, advs = finalize_sinks(prog, fin)
    wset = {id(c) for c, _, _ in writes}
    aset = {id(c) for c in advs}
    seen = {'file': set(), 'update': set()}

    def observe(f, node, env):
        if f is not fin or node.kind != 'stmt' or node.ast is None:
            return
        for c in calls_in(node.ast):
            if id(c) in wset:
                v = ip.ev(f, c.args[0], env)
                seen['file'].add(v.strip() if isinstance(v, str) else UNK)
            elif id(c) in aset:
                st = I.handon_state_expr(c)
                v = UNK
                if st is not None and not (isinstance(st, ast.Constant)
                                           and st.value is None):
                    v = ip.ev(f, st, env)
                else:
                    th = I.handon_thing(c)
                    tv = ip.ev(f, th, env) if th is not None else UNK
                    if isinstance(tv, dict):
                        v = tv.get('state', UNK)
                seen['update'].add(v)

    ip = Interp(prog, agent, track=[CAUSE], observe=observe)
    ip.run(fin, {CAUSE: lit})
    seen['states'] = ip.states
    return seen


def r14_4_5(prog, rep, defs):
    rep.rule('R14.4', 'Agent_0.finalize maps the cause set on runtime expiry '
             'to DONE, the cause set by a cancel request to CANCELED and the '
             'initial cause to FAILED, both in killme.signal and in the final '
             'state update', minimum=6)
    rep.rule('R14.5', 'the signal file written by finalize is the one '
             'bootstrap_0.sh waits for and reads the final state from, with '
             'FAILED as default', minimum=4)
    agent = prog.cls(*AGENT)
    fin = prog.method(AGENT[0], AGENT[1], 'finalize')
    if fin.cls is not agent:
        raise AnalysisError('anchor method Agent_0.finalize not defined in '
                            'Agent_0')
    rep.saw(fin)
    done = prog.const(STATES, 'DONE')
    canceled = prog.const(STATES, 'CANCELED')
    failed = prog.const(STATES, 'FAILED')

    if defs is None:
        defs = cause_defs(prog, agent)

    def lit_of(mname):
        got = [(f, s, v) for f, s, v in defs if f.name == mname]
        if len(got) == 1 and got[0][2] is not UNK:
            return got[0]
        # no literal assignment in the method itself: the cause it leaves
        # behind through the (parameterised) methods it calls
        f = prog.find_method(agent, mname)
        vals = effective_cause(prog, agent, f) if f is not None else set()
        if len(vals) != 1 or UNK in vals:
            raise AnalysisError('UNRECOGNISED-IDIOM Agent_0.%s: expected one '
                                'literal assignment to %s, or one constant '
                                'cause recorded through the methods it calls '
                                '(found %s)' % (mname, CAUSE,
                                                sorted(map(repr, vals))))
        return (f, None, list(vals)[0])

    cases = [('runtime limit reached', lit_of('_check_lifetime'), done),
             ('cancel_pilots request', lit_of('_ctrl_cancel_pilots'),
              canceled),
             ('no cause recorded (agent died / failed)', lit_of('__init__'),
              failed)]
    writes, advs = finalize_sinks(prog, fin)
    if not writes:
        raise AnalysisError('R14.4: %s does not write a *.signal file'
                            % fin.where)
    if not advs:
        raise AnalysisError('R14.4: %s does not publish a final state update'
                            % fin.where)
    for what, (df, dstmt, lit), expect in cases:
        seen = eval_finalize(prog, agent, fin, lit)
        rep.stat('interp_states', seen.pop('states'))
        for sink, label in (('file', 'killme.signal'),
                            ('update', 'final state update')):
            vals = seen[sink]
            if not vals:
                raise AnalysisError('R14.4: the %s of %s is not reached for '
                                    'cause %r' % (label, fin.where, lit))
            wrong = sorted((v for v in vals if v is not UNK and v != expect),
                           key=repr)
            if not wrong and UNK in vals:
                raise AnalysisError('UNRECOGNISED-IDIOM %s: the state written '
                                    'to the %s cannot be evaluated for cause '
                                    '%r' % (fin.where, label, lit))
            rep.check(not wrong, 'R14.4', fin,
                      '%s (cause %r) -> %s in the %s' % (what, lit, expect,
                                                         label),
                      construct='%s:%s' % (df.name, sink),
                      message='Agent_0.finalize writes %s to the %s for the '
                      'cause %r which %s records for "%s"; the pilot must '
                      'end %s' % ('/'.join(map(repr, wrong)), label, lit,
                                  df.qual, what, expect),
                      loc=fin.loc(),
                      history='%s: %s sets the cause %r, finalize reports %s'
                      % (what, df.qual, lit, '/'.join(map(repr, wrong))))
    # literals tested but never assigned (information)
    assigned = {v for _, _, v in defs if v is not UNK} | \
        {c[1][2] for c in cases}
    for t in walk(fin.node):
        if isinstance(t, ast.Compare) and _key_of(t.left) == CAUSE:
            for cmpr in t.comparators:
                v = prog.fold(fin.module, cmpr, fin.cls)
                if v is not UNK and isinstance(v, str) and v not in assigned:
                    rep.info('R14.4', fin, 'cause %r is tested in finalize '
                             'but never assigned: dead branch' % v,
                             fin.loc(t))

    # R14.5
    sh = prog.read_text(BOOT)
    WB = '%s::final_state' % BOOT
    locb = 'src/radical/pilot/%s' % BOOT

    def norm(p):
        return os.path.normpath(p.strip().strip('"\''))

    paths = sorted({norm(p) for _, p, _ in writes})
    modes = {m for _, _, m in writes}
    rel = len(paths) == 1 and not os.path.isabs(paths[0]) and \
        os.sep not in paths[0] and modes == {'w'}
    rep.check(rel, 'R14.5', fin, 'finalize (over)writes one signal file in '
              'the agent working directory: %s' % paths,
              construct='signal file',
              message='Agent_0.finalize writes the final state to %s (modes '
              '%s): not a single file, truncated on write, in the working '
              'directory the bootstrapper shares with the agent'
              % (paths, sorted(modes)), loc=fin.loc(),
              history='any termination: the bootstrapper does not find the '
              'state where it looks for it')
    name = paths[0]
    reads = re.findall(r'final_state=\$\(\s*cat\s+([^\s)]+)\s*\)', sh)
    if not reads:
        raise AnalysisError('R14.5: %s does not read final_state from a file '
                            '(final_state=$(cat <file>))' % BOOT)
    rep.check(all(norm(r) == name for r in reads), 'R14.5', WB,
              'bootstrap_0.sh reads final_state from %s' % name,
              construct='final_state=$(cat)',
              message='bootstrap_0.sh reads the final state from %s but '
              'Agent_0.finalize writes it to %s: the state chosen by the '
              'agent is lost and the default is used'
              % (sorted({norm(r) for r in reads}), name), loc=locb,
              history='agent ends by runtime limit and writes DONE; the '
              'bootstrapper does not find the file and assumes FAILED')
    tests = {norm(x) for x in re.findall(
        r'(?:test|\[)\s+-[ef]\s+("[^"]+"|\'[^\']+\'|[^\s;\]]+)', sh)}
    sig = {t for t in tests if t.endswith('.signal')}
    rep.check(name in sig, 'R14.5', WB,
              'bootstrap_0.sh tests for the existence of %s' % name,
              construct='test -e',
              message='bootstrap_0.sh waits for / tests the signal file(s) '
              '%s, Agent_0.finalize writes %s: the bootstrapper never '
              'notices the clean shutdown' % (sorted(sig), name), loc=locb,
              history='agent finalizes: the watcher loop does not see the '
              'signal and the final state is not read')
    failed = prog.const(STATES, 'FAILED')
    m = re.search(r'test\s+-z\s+"?\$\{?final_state\}?"?\s*(?:;|\n)\s*then'
                  r'(.*?)\bfi\b', sh, re.S)
    dflt = re.findall(r'final_state=["\']?(\w+)["\']?', m.group(1)) if m \
        else []
    rep.check(dflt == [failed], 'R14.5', WB, 'an empty final_state defaults '
              'to %s' % failed, construct='default',
              message='bootstrap_0.sh does not default an unset final state '
              'to %s (found %s): an agent that died without writing the '
              'signal file is not reported FAILED' % (failed, dflt), loc=locb,
              history='agent is killed by the batch system before finalize '
              'runs')
    return writes



# ------------------------------------------------------------------------------
# R14.11  the bootstrapper reads the signal file whenever it exists
#
# A small model of the block structure of a POSIX shell script: the text is
# cut into simple commands (at newlines and `;` outside quotes, command
# substitutions and here-documents; comments dropped) and the reserved words
# if / then / elif / else / fi, while / until / for / do / done, case / esac,
# `{` / `}` and function headers are followed with a stack.  For a command the
# model answers: which conditions is it control dependent on, with which
# polarity.  Everything else of the shell (expansion, redirection, what a
# command does) is out of its reach.
#
def _sh_commands(text):
    """[(line number, command text)] - simple commands in source order"""
    out = []
    cur, line, start = [], 1, 1
    i, n = 0, len(text)
    sq = dq = False
    depth = 0            # $( ... ) / ( ... ) nesting
    bt = False           # `...`
    heredocs = []        # delimiters waiting for the end of this line

    def flush():
        t = ''.join(cur).strip()
        if t:
            out.append((start, t))
        del cur[:]

    while i < n:
        c = text[i]
        if c == '\n':
            line += 1
            if heredocs and not sq and not dq:
                # skip the bodies
                for delim, strip in heredocs:
                    while i < n:
                        j = text.find('\n', i + 1)
                        body = text[i + 1: j if j >= 0 else n]
                        i = j if j >= 0 else n
                        line += 1
                        if (body.lstrip('\t') if strip else body) == delim \
                                or j < 0:
                            break
                line -= 1
                heredocs = []
                flush()
                start = line + 1
                i += 1
                line += 1
                continue
            if sq or dq or depth or bt:
                cur.append(' ')
            elif cur and ''.join(cur).rstrip().endswith('\\'):
                t = ''.join(cur).rstrip()[:-1]
                del cur[:]
                cur.append(t + ' ')
            else:
                flush()
                start = line
            i += 1
            continue
        if not cur or not ''.join(cur).strip():
            start = line
        if sq:
            cur.append(c)
            sq = c != "'"
            i += 1
            continue
        if c == '\\' and i + 1 < n and text[i + 1] != '\n':
            cur.append(text[i:i + 2])
            i += 2
            continue
        if dq:
            cur.append(c)
            if c == '"':
                dq = False
            elif c == '$' and text[i + 1:i + 2] == '(':
                pass         # (substitution inside quotes: kept as text)
            i += 1
            continue
        if c == "'":
            sq = True
        elif c == '"':
            dq = True
        elif c == '`':
            bt = not bt
        elif c == '#' and not bt and (i == 0 or text[i - 1] in ' \t\n;'):
            j = text.find('\n', i)
            i = j if j >= 0 else n
            continue
        elif c == '(' and (depth or text[i - 1:i] == '$'):
            depth += 1
        elif c == ')' and depth:
            depth -= 1
        elif c == ';' and not depth and not bt:
            flush()
            i += 1
            continue
        elif c == '<' and text[i:i + 2] == '<<' and text[i:i + 3] != '<<<' \
                and not depth and not bt:
            m = re.match(r'<<(-?)\s*(["\']?)([A-Za-z_][A-Za-z0-9_]*)\2',
                         text[i:])
            if m:
                heredocs.append((m.group(3), bool(m.group(1))))
                cur.append(m.group(0))
                i += len(m.group(0))
                continue
        cur.append(c)
        i += 1
    flush()
    return out


def _sh_split_list(cmd):
    """parts of an and-or list: [(operator in front: None / '&&' / '||',
    text)], split outside quotes and substitutions"""
    parts, cur, op = [], [], None
    sq = dq = bt = False
    depth = 0
    i, n = 0, len(cmd)
    while i < n:
        c = cmd[i]
        if sq:
            sq = c != "'"
        elif c == '\\':
            cur.append(cmd[i:i + 2])
            i += 2
            continue
        elif dq:
            dq = c != '"'
        elif c == "'":
            sq = True
        elif c == '"':
            dq = True
        elif c == '`':
            bt = not bt
        elif c == '(':
            depth += 1
        elif c == ')' and depth:
            depth -= 1
        elif not depth and not bt and cmd[i:i + 2] in ('&&', '||'):
            parts.append((op, ''.join(cur).strip()))
            cur, op = [], cmd[i:i + 2]
            i += 2
            continue
        cur.append(c)
        i += 1
    parts.append((op, ''.join(cur).strip()))
    return parts


def _sh_context(text, is_target):
    """[(line, command, [(condition text, holds: bool)] or None)] for every
    command the predicate selects: the conditions of the enclosing if-blocks
    and of the and-or list in front of it (None: inside a loop, a case, a
    function, or the test of an `if` itself - the model cannot say when it
    runs).  Raises AnalysisError if the reserved words do not pair up."""
    stack = []
    found = []
    prev = ''

    def bad(line, why):
        raise AnalysisError('UNRECOGNISED-IDIOM %s line %d: shell block '
                            'structure not understood (%s)' % (BOOT, line, why))

    for line, cmd in _sh_commands(text):
        rest = cmd
        while rest:
            m = re.match(r'([^\s]+)\s*(.*)$', rest, re.S)
            w, tail = m.group(1), m.group(2)
            if w in ('then', 'else', 'do'):
                if not stack:
                    bad(line, '`%s` outside a block' % w)
                top = stack[-1]
                if w == 'do':
                    if top['kind'] != 'loop':
                        bad(line, '`do` outside a loop')
                    top['branch'] = 'body'
                else:
                    if top['kind'] != 'if':
                        bad(line, '`%s` outside an if' % w)
                    if w == 'else':
                        top['prior'].append(top['cond'])
                        top['cond'] = None
                    top['branch'] = w
                rest = tail
                continue
            if w == '{':
                stack.append({'kind': 'func' if re.search(
                    r'(\(\s*\)|^function\s+\S+)\s*$', prev) else 'brace'})
                rest = tail
                continue
            break
        if not rest:
            prev = cmd
            continue
        m = re.match(r'([^\s]+)\s*(.*)$', rest, re.S)
        w, tail = m.group(1), m.group(2)
        if w == 'if':
            stack.append({'kind': 'if', 'cond': tail, 'prior': [],
                          'branch': 'test'})
        elif w == 'elif':
            if not stack or stack[-1]['kind'] != 'if':
                bad(line, '`elif` outside an if')
            stack[-1]['prior'].append(stack[-1]['cond'])
            stack[-1]['cond'] = tail
            stack[-1]['branch'] = 'test'
        elif w == 'fi':
            if not stack or stack[-1]['kind'] != 'if':
                bad(line, '`fi` without if')
            stack.pop()
        elif w in ('while', 'until', 'for', 'select'):
            stack.append({'kind': 'loop', 'branch': 'test'})
        elif w == 'done':
            if not stack or stack[-1]['kind'] != 'loop':
                bad(line, '`done` without loop')
            stack.pop()
        elif w == 'case':
            stack.append({'kind': 'case'})
        elif w == 'esac':
            if not stack or stack[-1]['kind'] != 'case':
                bad(line, '`esac` without case')
            stack.pop()
        elif w == '}':
            if not stack or stack[-1]['kind'] not in ('func', 'brace'):
                bad(line, '`}` without `{`')
            stack.pop()
        elif re.match(r'(function\s+)?[A-Za-z_][\w.-]*\s*\(\s*\)\s*\{?$', rest) \
                or re.match(r'function\s+[A-Za-z_][\w.-]*\s*\{?$', rest):
            if rest.endswith('{'):
                stack.append({'kind': 'func'})
        else:
            parts = _sh_split_list(rest)
            for k, (op, t) in enumerate(parts):
                if not is_target(t):
                    continue
                conds = []
                for fr in stack:
                    if fr['kind'] == 'brace':
                        continue
                    if fr['kind'] != 'if' or fr['branch'] == 'test':
                        conds = None
                        break
                    conds += [(c, False) for c in fr['prior']]
                    if fr['branch'] == 'then':
                        conds.append((fr['cond'], True))
                if conds is not None:
                    ops = {o for o, _ in parts[1:k + 1]}
                    if len(ops) > 1:
                        conds = None      # a && b || c: not a plain guard
                    else:
                        conds += [(pt, o == '&&') for (_, pt), (o, _) in
                                  zip(parts[:k], parts[1:k + 1])]
                found.append((line, t, conds))
        prev = cmd
    if stack:
        raise AnalysisError('UNRECOGNISED-IDIOM %s: shell block structure not '
                            'understood (%d block(s) left open at the end of '
                            'the file)' % (BOOT, len(stack)))
    return found


def _sh_atoms(cond, holds):
    """[(kind, operator, operand, holds)] for the commands of a condition
    list joined by && (kind: 'test' with a unary / other operator, or
    'command'); None if it cannot be taken apart"""
    parts = _sh_split_list(cond)
    if any(o == '||' for o, _ in parts):
        return None
    if not holds and len(parts) > 1:
        return None                  # not (a && b): either may fail
    out = []
    for _, t in parts:
        pos = holds
        while t.startswith('!'):
            pos = not pos
            t = t[1:].strip()
        m = re.match(r'(?:test\s+(.*)|\[\[\s+(.*?)\s+\]\]|\[\s+(.*?)\s+\])\s*$',
                     t, re.S)
        if not m:
            out.append(('command', None, t, pos))
            continue
        body = next(x for x in m.groups() if x is not None).strip()
        while body.startswith('!'):
            pos = not pos
            body = body[1:].strip()
        u = re.match(r'-([A-Za-z])\s+("[^"]*"|\'[^\']*\'|\S+)$', body)
        if u:
            out.append(('test', '-' + u.group(1), u.group(2), pos))
        else:
            out.append(('test', None, body, pos))
    return out


def r14_11(prog, rep, writes, rid='R14.11'):
    rep.rule(rid, 'bootstrap_0.sh reads the signal file into final_state '
             'whenever the file exists: the read is control dependent on '
             'nothing but (positive) tests of that file', minimum=1)
    sh = prog.read_text(BOOT)
    WB = '%s::final_state' % BOOT
    locb = 'src/radical/pilot/%s' % BOOT

    def norm(p):
        return os.path.normpath(p.strip().strip('"\''))

    names = sorted({norm(p) for _, p, _ in writes})
    if len(names) != 1:
        raise AnalysisError('%s: finalize does not write one signal file '
                            '(see R14.5)' % rid)
    name = names[0]
    rd = re.compile(r'^final_state=["\']?\$\(\s*cat\s+([^\s)]+)[^)]*\)["\']?$')
    reads = _sh_context(sh, lambda t: bool(rd.match(t)))
    if not reads:
        raise AnalysisError('%s: %s has no command final_state=$(cat <file>)'
                            % (rid, BOOT))
    verdicts = []
    for line, cmd, conds in reads:
        if norm(rd.match(cmd).group(1)) != name:
            continue                                    # (R14.5 reports it)
        if conds is None:
            raise AnalysisError('UNRECOGNISED-IDIOM %s line %d: the read of '
                                'the signal file sits in a loop, a case, a '
                                'function or the test of an if'
                                % (BOOT, line))
        extra = []
        for cond, holds in conds:
            atoms = _sh_atoms(cond, holds)
            if atoms is None:
                raise AnalysisError('UNRECOGNISED-IDIOM %s line %d: condition '
                                    '`%s` of the read of the signal file '
                                    'cannot be taken apart' % (BOOT, line,
                                                               cond))
            for kind, op, operand, pos in atoms:
                if kind == 'test' and op in ('-e', '-f', '-s', '-r') and \
                        norm(operand) == name:
                    if not pos:
                        extra.append(('the file %s does NOT exist' % name,
                                      cond))
                elif kind == 'test':
                    extra.append(('`%s%s` as well' % ('' if holds else '! ',
                                                      cond), cond))
                else:
                    raise AnalysisError('UNRECOGNISED-IDIOM %s line %d: the '
                                        'read of the signal file depends on '
                                        'the command `%s`' % (BOOT, line,
                                                              operand))
        verdicts.append((line, cmd, extra))
    if not verdicts:
        raise AnalysisError('%s: %s does not read %s (see R14.5)'
                            % (rid, BOOT, name))
    bad = [v for v in verdicts if v[2]]
    ok = len(bad) < len(verdicts)
    line, cmd, extra = (bad or verdicts)[0]
    rep.check(ok, rid, WB, 'the read of %s depends on the existence of the '
              'file only' % name, construct='read-guard',
              message='bootstrap_0.sh (line %d) reads %s into final_state '
              'only if %s: when the agent left the signal file but that '
              'condition does not hold, the state the agent chose is not '
              'read and the pilot is reported with the default (FAILED)'
              % (line, name, ' and '.join(e[0] for e in extra) or '-'),
              loc=locb, history='the agent reaches its runtime limit (or is '
              'canceled by request), writes DONE (CANCELED) to %s and ends by '
              'itself with exit code 0: final_state stays empty and is reset '
              'to FAILED' % name)


# ------------------------------------------------------------------------------
# R14.6  every pilot notification of a batch is applied
#
def valueless(f):
    """f has no `return <value>` on any path and is not a generator; trivial
    bodies (pass / raise / docstring: hooks meant to be overridden) do not
    count"""
    real = [s for s in f.node.body
            if not (isinstance(s, ast.Expr) and
                    isinstance(s.value, ast.Constant))]
    if not real or all(isinstance(s, (ast.Pass, ast.Raise)) for s in real):
        return False
    for n in walk(f.node):
        if isinstance(n, (ast.Yield, ast.YieldFrom, ast.Await)):
            return False
        if isinstance(n, ast.Return) and n.value is not None and not (
                isinstance(n.value, ast.Constant) and n.value.value is None):
            return False
    return True


def _result_tests(prog, f, cls, atom):
    """resolved callees without return value whose *result* the test atom
    looks at: the atom is the call, compares the call, or is a local name
    whose only definition is the call"""
    cands = []
    a = atom
    if isinstance(a, ast.Call):
        cands.append(a)
    elif isinstance(a, ast.Compare):
        cands += [x for x in [a.left] + list(a.comparators)
                  if isinstance(x, ast.Call)]
    elif isinstance(a, ast.Name):
        ds = _defs(f, a.id)
        if len(ds) == 1 and ds[0][2] is None and \
                isinstance(ds[0][1], ast.Call) and a.id not in f.params:
            cands.append(ds[0][1])
    out = []
    for c in cands:
        g = prog.resolve_call(f, c, cls)
        if g is not None and valueless(g):
            out.append((c, g))
    return out


def r14_6(prog, rep, rid='R14.6'):
    rep.rule(rid, 'PilotManager._state_sub_cb hands every thing of type pilot '
             'of a notification to _update_pilot: the loop covers all things, '
             'every pilot path calls _update_pilot, and the loop is not left '
             'on the result of a callee that returns no value, nor '
             'unconditionally after an update, nor for a thing of another '
             'type on a test of nothing but that thing', minimum=5)
    pm = prog.cls(*PMGR)
    f = prog.method(PMGR[0], PMGR[1], '_state_sub_cb')
    rep.saw(f)
    g = cfg_of(f)
    smap = I.stmt_node_map(g)
    params = [p for p in f.params if p != 'self']
    if len(params) < 2:
        raise AnalysisError('UNRECOGNISED-IDIOM %s: expected (topic, msg)'
                            % f.where)
    msg = params[1]
    ups = [c for c in calls_in(f.node)
           if call_name(c) == 'self._update_pilot' and smap[id(c)].loops]
    if not ups:
        raise AnalysisError('UNRECOGNISED-IDIOM %s: no self._update_pilot '
                            'call inside a loop' % f.where)
    heads = sorted({smap[id(c)].loops[-1] for c in ups})
    if len(heads) != 1 or g.nodes[heads[0]].kind != 'for' or \
            not isinstance(g.nodes[heads[0]].ast.target, ast.Name):
        raise AnalysisError('UNRECOGNISED-IDIOM %s: the pilot updates are not '
                            'in one `for <thing> in ...` loop' % f.where)
    head = g.nodes[heads[0]]
    tv = head.ast.target.id
    HIST = ('a launcher advances two pilots of one resource in bulk (one '
            "{'cmd': 'update', 'arg': [p1, p2]} message)")

    # pilot-type atoms --------------------------------------------------------
    def type_read(x, var, depth=0):
        """x is the type entry of the thing held by `var` (read in place or
        through a local assigned once)"""
        if unparse(x) in ("%s['type']" % var, "%s.get('type')" % var,
                          "%s.get('type', None)" % var):
            return True
        if isinstance(x, ast.Name) and depth < 3 and x.id not in f.params:
            ds = _defs(f, x.id)
            return len(ds) == 1 and ds[0][2] is None and \
                type_read(ds[0][1], var, depth + 1)
        return False

    def classify(a, var, kind='pilot'):
        """True / False: value of the atom for a thing of type `kind`"""
        if isinstance(a, ast.Compare) and len(a.ops) == 1:
            l, r, op = a.left, a.comparators[0], a.ops[0]
            if isinstance(op, (ast.In, ast.NotIn)) and \
                    isinstance(l, ast.Constant) and l.value == 'type' and \
                    unparse(r) == var:
                return isinstance(op, ast.In)
            if isinstance(op, (ast.Eq, ast.NotEq)):
                for x, y in ((l, r), (r, l)):
                    if type_read(x, var) and isinstance(y, ast.Constant):
                        same = y.value == kind
                        return same if isinstance(op, ast.Eq) else not same
            if isinstance(op, (ast.In, ast.NotIn)) and \
                    type_read(l, var) and \
                    isinstance(r, (ast.List, ast.Tuple, ast.Set)) and \
                    all(isinstance(x, ast.Constant) for x in r.elts):
                same = kind in [x.value for x in r.elts]
                return same if isinstance(op, ast.In) else not same
        return None

    def local_predicate(c):
        """(parameter name, returned expression) of the one-argument predicate
        a call denotes: a function defined inside the callback, a lambda bound
        once to a local name, or a resolved method of the class - each with a
        body that is one `return <expr>`"""
        fn = None
        if isinstance(c.func, ast.Name):
            nested = [n for n in ast.walk(f.node)
                      if isinstance(n, ast.FunctionDef) and n is not f.node
                      and n.name == c.func.id]
            ds = _defs(f, c.func.id)
            if len(nested) == 1 and not ds:
                fn = nested[0]
            elif not nested and len(ds) == 1 and ds[0][2] is None and \
                    isinstance(ds[0][1], ast.Lambda):
                lam = ds[0][1]
                ps = [a.arg for a in lam.args.args]
                if len(ps) == 1 and not lam.args.defaults:
                    return ps[0], lam.body
                return None
        else:
            try:
                gi = prog.resolve_call(f, c, pm)
            except Exception:
                gi = None
            fn = gi.node if gi is not None and gi.cls is not None else None
        if fn is None:
            return None
        ps = [a.arg for a in fn.args.args if a.arg not in ('self', 'cls')]
        body = [b for b in fn.body if not (isinstance(b, ast.Expr) and
                                           isinstance(b.value, ast.Constant))]
        if len(ps) != 1 or len(body) != 1 or \
                not isinstance(body[0], ast.Return) or body[0].value is None:
            return None
        return ps[0], body[0].value

    def holds(cond, var, depth=0, kind='pilot'):
        """True / False / None: value of a condition for a thing of type
        `kind` held by `var`"""
        if depth > 4:
            return None
        if isinstance(cond, ast.BoolOp):
            vals = [holds(x, var, depth, kind) for x in cond.values]
            if isinstance(cond.op, ast.And):
                return False if False in vals else (
                    True if all(v is True for v in vals) else None)
            return True if True in vals else (
                False if all(v is False for v in vals) else None)
        if isinstance(cond, ast.UnaryOp) and isinstance(cond.op, ast.Not):
            v = holds(cond.operand, var, depth, kind)
            return None if v is None else not v
        if isinstance(cond, ast.Call) and len(cond.args) == 1 and \
                not cond.keywords and unparse(cond.args[0]) == var:
            lp = local_predicate(cond)
            if lp is not None:
                return holds(lp[1], lp[0], depth + 1, kind)
            return None
        if isinstance(cond, ast.Name) and depth < 4 and cond.id != var:
            ds = _defs(f, cond.id)
            if len(ds) == 1 and ds[0][2] is None and \
                    cond.id not in f.params and \
                    isinstance(ds[0][1], (ast.Compare, ast.BoolOp,
                                          ast.UnaryOp)):
                return holds(ds[0][1], var, depth + 1, kind)
            return None
        return classify(cond, var, kind)

    # (1) the loop covers every thing of the message ---------------------------
    def from_msg(e, depth=0):
        """'all' | 'some' | None: e denotes all things of the message"""
        if depth > 10:
            return None
        t = unparse(e)
        if t in ("%s.get('arg')" % msg, "%s['arg']" % msg):
            return 'all'
        if isinstance(e, ast.Name):
            ds = _defs(f, e.id)
            if not ds:
                return None
            res = [from_msg(v, depth + 1) if i is None else None
                   for _, v, i in ds]
            if all(x == 'all' for x in res):
                return 'all'
            return 'some' if any(res) else None
        if isinstance(e, ast.List) and len(e.elts) == 1:
            return from_msg(e.elts[0], depth + 1)
        if isinstance(e, ast.Call) and call_name(e) in ('ru.as_list', 'list') \
                and len(e.args) == 1:
            return from_msg(e.args[0], depth + 1)
        if isinstance(e, (ast.ListComp, ast.GeneratorExp)) and \
                len(e.generators) == 1 and \
                isinstance(e.generators[0].target, ast.Name) and \
                unparse(e.elt) == e.generators[0].target.id:
            gen = e.generators[0]
            base = from_msg(gen.iter, depth + 1)
            if base != 'all':
                return base
            for cond in gen.ifs:
                if holds(cond, gen.target.id) is not True:
                    return 'some'
            return 'all'
        if isinstance(e, ast.Subscript):
            return 'some' if from_msg(e.value, depth + 1) else None
        return None

    cover = from_msg(head.ast.iter)
    if cover is None:
        raise AnalysisError('UNRECOGNISED-IDIOM %s: the loop does not iterate '
                            "the things of %s['arg']: %s"
                            % (f.where, msg, short(head.ast.iter)))
    rep.check(cover == 'all', rid, f, 'the loop iterates all (pilot) things '
              'of the message', construct=head.ast.iter,
              message='%s iterates `%s`, which is only a part of the things '
              'of the notification (or filters out pilots): the other pilot '
              'updates are dropped' % (f.qual, short(head.ast.iter, 60)),
              loc=f.loc(head.ast), history=HIST + ': p2 never leaves its '
              'state; a FAILED/CANCELED meant for p2 is lost and wait() '
              'blocks')

    # (2) + (3) paths of one iteration for a thing of type pilot ---------------
    upids = {smap[id(c)].id for c in ups if c.args and
             unparse(c.args[0]) == tv}

    def transfer(node, edge, st):
        if edge.label == 'exc':
            return st
        if node.kind == 'test' and edge.label in ('T', 'F'):
            v = holds(node.ast, tv)
            if v is not None and (edge.label == 'T') != v:
                return None
            return st
        if node.id in upids:
            return st + 1 if st < 2 else st
        return st

    start, stop, stop_edge = loop_slice(g, head.id)
    ex = Exploration(g, start, 0, transfer, stop=stop, stop_edge=stop_edge)
    rep.stat('paths_enumerated', ex.states)
    missed = None
    leaves = []
    for t in ex.terminals:
        if t.via == 'exc':
            continue
        path = ex.path(t)
        back = bool(path) and path[-1].back and path[-1].dst == head.id
        if t.state == 0 and missed is None:
            missed = ex.literals(t)
        if not back:
            leaves.append((t, path))
    rep.check(missed is None, rid, f, 'every path of an iteration for a '
              'thing of type pilot calls self._update_pilot(%s)' % tv,
              construct='pilot-path',
              message='%s: for a thing of type pilot there is a path through '
              'the loop body that does not call self._update_pilot(%s) [%s]: '
              'that pilot notification is not applied'
              % (f.qual, tv, ' ; '.join(missed or [])), loc=f.loc(head.ast),
              history='a pilot notification for which [%s] holds: the facade '
              'keeps its old state and no callback fires'
              % ' ; '.join(missed or []))
    bad_leave = None
    for t, path in leaves:
        tests = [g.nodes[e.src] for e in path
                 if g.nodes[e.src].kind == 'test' and e.label in ('T', 'F')]
        for tn in tests:
            hit = _result_tests(prog, f, pm, tn.ast)
            if hit:
                c, callee = hit[0]
                bad_leave = bad_leave or (
                    tn.ast, 'on a test of the result of %s, which returns no '
                    'value on any path (the test always has the same '
                    'outcome)' % callee.qual)
        # unconditionally after an update: no test between update and leave
        seen_up = False
        cond = False
        for e in path:
            n = g.nodes[e.src]
            if n.id in upids:
                seen_up, cond = True, False
            elif seen_up and n.kind == 'test' and e.label in ('T', 'F'):
                cond = True
        if seen_up and not cond:
            last = g.nodes[path[-1].src]
            bad_leave = bad_leave or (
                last.ast, 'unconditionally after the first pilot update')
    rep.check(bad_leave is None, rid, f, 'the loop is not left early after '
              'the first pilot', construct=bad_leave[0] if bad_leave
              else 'leave',
              message='%s leaves the loop over the things %s: the remaining '
              'pilot notifications of the batch are never applied'
              % (f.qual, bad_leave[1] if bad_leave else ''),
              loc=f.loc(bad_leave[0]) if bad_leave else f.loc(),
              history=HIST + ': only p1 is updated; p2 stays in its old '
              'state (a bulk FAILED after a failed launch never reaches it '
              'and wait() blocks)')
    # (3b) a thing that is no pilot does not end the loop: the state channel
    # carries task and pilot things in one bulk; a path of an iteration that
    # leaves the loop (return / break) for a thing of another type, decided by
    # nothing but that thing, drops the pilot notifications behind it
    dd = Deps(f.node, implicit=False)

    def thing_only(loc, seen):
        if loc == tv or loc.startswith(tv + '[') or loc.startswith(tv + '.'):
            return True
        if loc == 'self' or loc.startswith('self.') or \
                loc.startswith('ret:') or loc in f.params:
            return False
        base = loc.split('[')[0].split('.')[0]
        if base != loc:
            return thing_only(base, seen)
        if loc not in dd.edges:
            return True               # module / builtin name
        if loc in seen:
            return True
        seen.add(loc)
        return all(thing_only(d, seen) for d in dd.edges[loc])

    def about_thing(test):
        return all(thing_only(x, set()) for x in dd.reads(test))

    foreign_leave = None
    for kind in ('task', '<another type>'):

        def transfer_k(node, edge, st, kind=kind):
            if edge.label == 'exc':
                return None
            if node.kind == 'test' and edge.label in ('T', 'F'):
                v = holds(node.ast, tv, 0, kind)
                if v is not None:
                    return st if (edge.label == 'T') == v else None
                return st if about_thing(node.ast) else 1
            return st

        exk = Exploration(g, start, 0, transfer_k, stop=stop,
                          stop_edge=stop_edge)
        for t in exk.terminals:
            if t.via == 'exc' or t.state:
                continue
            path = exk.path(t)
            if not path or path[-1].back and path[-1].dst == head.id:
                continue
            if path[-1].dst == head.id or path[-1].label == 'done':
                continue
            if foreign_leave is None:
                foreign_leave = (g.nodes[path[-1].src].ast, kind,
                                 exk.literals(t))
    rep.check(foreign_leave is None, rid, f, 'a thing that is no pilot does '
              'not end the loop over the things', construct=foreign_leave[0]
              if foreign_leave else 'foreign-leave',
              message='%s leaves the loop over the things of a notification '
              'for a thing of type %s [%s]: every thing behind it in the same '
              'bulk is dropped - the state channel carries task and pilot '
              'updates in one message, so a pilot state (also a final one) '
              'that follows a task update is never applied'
              % ((f.qual, foreign_leave[1].strip('<>'),
                  ' ; '.join(foreign_leave[2])) if foreign_leave
                 else (f.qual, '', '')),
              loc=f.loc(foreign_leave[0]) if foreign_leave else f.loc(),
              history="one bulk {'cmd': 'update', 'arg': [task t0: "
              "AGENT_STAGING_OUTPUT_PENDING, pilot p0: CANCELED]}: the loop "
              'ends at t0, p0 keeps its old state for the application, its '
              'callbacks never fire (and the tasks bound to it are never '
              'reported FAILED)')
    # (4) contradiction rule on the whole callback
    contra = []
    for n in g.nodes:
        if n.kind == 'test':
            for c, callee in _result_tests(prog, f, pm, n.ast):
                contra.append((n.ast, callee))
    rep.check(not contra, rid, f, 'no branch of the callback tests the result '
              'of a callee that returns no value', construct=contra[0][0]
              if contra else 'result-tests',
              message='%s branches on `%s`, but %s never returns a value: '
              'the branch is decided once and for all, whatever the callee '
              'did' % (f.qual, short(contra[0][0], 60) if contra else '',
                       contra[0][1].qual if contra else ''),
              loc=f.loc(contra[0][0]) if contra else f.loc(), history=HIST)


def sweep_result_tests(prog, rep, rid='R14.6'):
    """thorough tier: the contradiction pattern anywhere in the package"""
    n = 0
    funcs = []
    for m in prog.modules.values():
        funcs += list(m.funcs.values())
        for c in m.classes.values():
            funcs += list(c.methods.values())
    for f in funcs:
        try:
            g = cfg_of(f)
        except Exception:
            continue
        for node in g.nodes:
            if node.kind != 'test':
                continue
            for c, callee in _result_tests(prog, f, f.cls, node.ast):
                if isinstance(c.func, ast.Attribute) and \
                        isinstance(c.func.value, ast.Name) and \
                        c.func.value.id != 'self':
                    continue
                n += 1
                rep.info(rid, f, 'test on the result of %s which has no '
                         '`return <value>`: %s' % (callee.qual,
                                                   short(node.ast, 60)),
                         f.loc(node.ast))
    rep.stat('sweep_result_tests', n)

# ------------------------------------------------------------------------------
#
def run(prog, rep, tier):
    rep.decided = ('pilot state table well-formed and in pipeline order, '
        '_pilot_state_inv inverts it, _pilot_state_progress replays exactly '
        'the states in (cur, tgt] and only for cur < tgt; Pilot._state has '
        'the two writers __init__/_update and _update is driven only by '
        'PilotManager._update_pilot (known pilot, unchanged state or once '
        'per passed state); for every (current, notified) pair of table '
        'states _update_pilot hands Pilot._update exactly the states in '
        '(current, target] (intermediate states dropped only for FAILED / '
        'CANCELED, nothing for a target that is not ahead) and Pilot._update '
        'accepts each of these steps; a termination cause - literal or '
        'argument / default of a method that stores its parameter - is not '
        'overwritten by a different one before the recording method returns; '
        'a cause-recording method that is entered from several methods (stop) '
        'keeps a recorded cause for every call that names no cause; finalize '
        'maps '
        'runtime expiry to DONE, a cancel request to CANCELED and no cause '
        'to FAILED in both killme.signal and the final update; the signal '
        'file name and FAILED default agree with bootstrap_0.sh; the pilot '
        'manager applies every pilot notification of a bulk message; '
        '_update_pilot, evaluated for a notification whose uid is not in '
        'self._pilots, performs no failing lookup and applies nothing '
        '(R14.9); the task manager scheduler records, for every pair '
        '(recorded, notified) of table states, the later one and '
        '_update_pilot_states is the only writer of that record (R14.10); '
        'the record stored for a pilot is an object made in the iteration / '
        'call that stores it, so the records of two pilots are never one '
        'object (R14.12); a whole record is stored (or deleted) only where '
        'the table holds none for that pilot, so the recorded state is not '
        'thrown away (R14.13); a handler of a control message records a '
        'cause that means CANCELED only on paths on which the agent found '
        'its own id named by the message (R14.14); '
        'a thing of another type (a task update of the same '
        'bulk) does not make the pilot manager leave its loop over the '
        'things (R14.6); '
        'the read of the signal file in bootstrap_0.sh depends on nothing '
        'but the existence of the file (R14.11).')
    rep.undecided = ('what bootstrap_0.sh does with final_state after it is '
        'set; delivery order/timing of notifications; '
        'exceptions raised by _pilot_state_progress on contradictory finals; '
        'which handler of a specific reason (runtime limit, cancel request) '
        'wins when both occur before finalize (either final state is then '
        'justified); a guard of the cause store that does not read the '
        'cause itself (undecided tests are unconstrained).')
    rep.assumptions = [
        'no monkey patching / setattr with computed names on Pilot, '
        'PilotManager, Agent_0; subclasses outside the package do not '
        'override the anchors',
        'self calls that cannot be resolved (library, other objects) do not '
        'write Agent_0._final_cause',
        'an unresolvable test is unconstrained (both branches are followed); '
        'tests on the cause itself are evaluated',
        'R14.7 takes _pilot_state_progress by its specification (R14.1 '
        'decides that the function meets it) and one known pilot in '
        'self._pilots; a method called from one method only is the handler '
        'of one specific termination reason (R14.8 looks at shared ones)',
        'bootstrap_0.sh is matched textually for `final_state=$(cat F)`, '
        '`test -e F` and the `test -z "$final_state"` default block; '
        'R14.11 adds a model of its block structure (if / elif / else / fi, '
        'loops, case, functions, and-or lists; comments and here-documents '
        'skipped) that only answers under which conditions a command runs',
        'R14.9 / R14.10 evaluate one notification against one known pilot '
        '(record); a lookup is taken to fail only when the dict is completely '
        'known and lacks the key, or the receiver is the None a .get returned',
        'R14.12: a dict display, dict(..), a .copy() / copy.copy / deepcopy '
        'call and a resolved helper all of whose returns are such make a new '
        'object at every evaluation; a name is new in an iteration when '
        'every definition that reaches the store is such a value assigned '
        'inside the loop; self.<attr> is one object for all',
    ]
    rep.attempt(r14_1, prog, rep)
    by_value = bool(rep.attempt(r14_7, prog, rep))
    unknown_by_value = bool(rep.attempt(r14_9, prog, rep))
    rep.attempt(r14_2, prog, rep, tier=tier, by_value=by_value,
                unknown_by_value=unknown_by_value)
    rep.attempt(r14_10, prog, rep)
    rep.attempt(r14_12, prog, rep)
    rep.attempt(r14_13, prog, rep)
    defs = rep.attempt(r14_3, prog, rep)
    writes = rep.attempt(r14_4_5, prog, rep, defs)
    if writes:
        rep.attempt(r14_11, prog, rep, writes)
    rep.attempt(r14_8, prog, rep)
    rep.attempt(r14_14, prog, rep)
    rep.attempt(r14_6, prog, rep)
    if tier == 'thorough':
        sweep_result_tests(prog, rep)
        # sweep: any other class of the package that keeps a _final_cause
        n = 0
        for c in prog.all_classes():
            if (c.module.rel, c.name) == AGENT:
                continue
            for f in c.methods.values():
                for kind, target, stmt in I.stores(f.node, nested=True):
                    if (_key_of(target) or '').endswith('._final_cause'):
                        n += 1
                        rep.info('R14.3', f, 'another writer of a final '
                                 'cause: %s' % short(stmt), f.loc(stmt))
        rep.stat('sweep_other_cause_writers', n)


# ------------------------------------------------------------------------------
# self-test variants
#
_A = 'agent/agent_0.py'
_P = 'pilot_manager.py'
_S = 'states.py'
_F = 'pilot.py'
_T = 'tmgr/scheduler/base.py'

# F04 (proposed_fixes/F04.diff) is committed in /repo; the variants below are
# written against the repaired stop()

MUTATIONS = [
    dict(name='R14.1 ACTIVE_PENDING sorted before LAUNCHING', rules=('R14.1',), edits=[
        (_S, "        PMGR_LAUNCHING         :  2,\n        PMGR_ACTIVE_PENDING    :  3,\n",
             "        PMGR_LAUNCHING         :  3,\n        PMGR_ACTIVE_PENDING    :  2,\n")]),
    dict(name='R14.1 CANCELED ranked above the other finals', rules=('R14.1',), edits=[
        (_S, "        FAILED                 :  5,\n        CANCELED               :  5}\n\n_pilot_state_inv ",
             "        FAILED                 :  5,\n        CANCELED               :  6}\n\n_pilot_state_inv ")]),
    dict(name='R14.1 duplicate value for two non-final states', rules=('R14.1',), edits=[
        (_S, "        PMGR_ACTIVE_PENDING    :  3,\n        PMGR_ACTIVE            :  4,\n        DONE                   :  5,",
             "        PMGR_ACTIVE_PENDING    :  3,\n        PMGR_ACTIVE            :  3,\n        DONE                   :  5,")]),
    dict(name='R14.1 progress guard admits equal values', rules=('R14.1',), edits=[
        (_S, "    cur = _pilot_state_values[current]\n    tgt = _pilot_state_values[target]\n\n    if cur >= tgt:",
             "    cur = _pilot_state_values[current]\n    tgt = _pilot_state_values[target]\n\n    if cur > tgt:")]),
    dict(name='R14.1 replay starts at the current state', rules=('R14.1',), edits=[
        (_S, "    for i in range(cur + 1,tgt):\n        passed.append(_pilot_state_inv[i])",
             "    for i in range(cur,tgt):\n        passed.append(_pilot_state_inv[i])")]),
    dict(name='R14.1 replay includes the target value twice', rules=('R14.1',), edits=[
        (_S, "    for i in range(cur + 1,tgt):\n        passed.append(_pilot_state_inv[i])",
             "    for i in range(cur + 1,tgt + 1):\n        passed.append(_pilot_state_inv[i])")]),
    dict(name='R14.1 no-progress guard dropped', rules=('R14.1',), edits=[
        (_S, "    cur = _pilot_state_values[current]\n    tgt = _pilot_state_values[target]\n\n    if cur >= tgt:\n        # nothing to do, a similar or better progression happened earlier\n        return [current, []]\n",
             "    cur = _pilot_state_values[current]\n    tgt = _pilot_state_values[target]\n")]),
    dict(name='R14.9 unknown pilots not ignored', rules=('R14.9',), edits=[
        (_P, "            if pid not in self._pilots:\n                return   # this is not an error\n\n            # only update on state changes",
             "            # only update on state changes")]),
    dict(name='R14.9 unknown-pilot test inverted', rules=('R14.9',), edits=[
        (_P, "            if pid not in self._pilots:\n                return   # this is not an error\n\n            # only update on state changes",
             "            if pid in self._pilots:\n                return   # this is not an error\n\n            # only update on state changes")]),
    dict(name='R14.9 seed C14-g2: pilot looked up in front of the unknown-pilot test', rules=('R14.9',), edits=[
        (_P, "            # we don't care about pilots we don't know\n            if pid not in self._pilots:\n                return   # this is not an error\n\n            # only update on state changes\n            current = self._pilots[pid].state\n",
             "            current = self._pilots[pid].state\n\n            # we don't care about pilots we don't know\n            if pid not in self._pilots:\n                return   # this is not an error\n\n            # only update on state changes\n")]),
    dict(name='R14.9 pilot fetched with get, its state read in front of the None test', rules=('R14.9',), edits=[
        (_P, "            if pid not in self._pilots:\n                return   # this is not an error\n\n            # only update on state changes\n            current = self._pilots[pid].state\n",
             "            pilot   = self._pilots.get(pid)\n            current = pilot.state\n            if pilot is None:\n                return   # this is not an error\n\n")]),
    dict(name='R14.9 None test on the fetched pilot inverted', rules=('R14.9',), edits=[
        (_P, "            if pid not in self._pilots:\n                return   # this is not an error\n\n            # only update on state changes\n            current = self._pilots[pid].state\n",
             "            pilot = self._pilots.get(pid)\n            if pilot is not None:\n                return\n\n            current = pilot.state\n")]),
    dict(name='R14.9 unknown pilot logged with its current state before the return', rules=('R14.9',), edits=[
        (_P, "            if pid not in self._pilots:\n                return   # this is not an error\n",
             "            if pid not in self._pilots:\n                self._log.debug('unknown pilot %s [%s]', pid,\n                                self._pilots[pid].state)\n                return   # this is not an error\n")]),
    dict(name='R14.2 replay does not set the passed state', rules=('R14.2', 'R14.7'), edits=[
        (_P, "                pilot_dict['state'] = s\n                self._pilots[pid]._update(pilot_dict)",
             "                self._pilots[pid]._update(pilot_dict)")]),
    dict(name='R14.2 target applied directly, no replay', rules=('R14.2', 'R14.7'), edits=[
        (_P, "            target, passed = rps._pilot_state_progress(pid, current, target)\n",
             "            target, passed = rps._pilot_state_progress(pid, current, target)\n            self._pilots[pid]._update(pilot_dict)\n")]),
    dict(name='R14.2 replay iterates a locally built list', rules=('R14.2', 'R14.7'), edits=[
        (_P, "            if target in [rps.CANCELED, rps.FAILED]:\n                # don't replay intermediate states\n                passed = passed[-1:]\n",
             "            if target in [rps.CANCELED, rps.FAILED]:\n                # don't replay intermediate states\n                passed = [pilot_dict['state']]\n")]),
    dict(name='R14.2 state callback updates the pilot directly', rules=('R14.2',), edits=[
        (_P, "                self._update_pilot(thing, publish=False)\n",
             "                self._pilots[thing['uid']]._update(thing)\n                self._update_pilot(thing, publish=False)\n")]),
    dict(name='R14.2 second writer of Pilot._state', rules=('R14.2',), edits=[
        (_F, "        if state == rps.FAILED and self._exit_on_error:",
             "        self._state = state\n        if state == rps.FAILED and self._exit_on_error:")]),
    dict(name='R14.3 F04 reverted: stop() always records cancel', rules=('R14.3',), edits=[
        (_A, "        if self._final_cause is None:\n            self._final_cause = 'cancel'\n", "        self._final_cause = 'cancel'\n")]),
    dict(name='R14.3 stop() records its own cause', rules=('R14.3',), edits=[
        (_A, "        if self._final_cause is None:\n            self._final_cause = 'cancel'\n", "        self._final_cause = 'stop'\n")],
         note='the cancel request is then reported FAILED (unknown cause)'),
    dict(name='R14.3 stop() guard inverted', rules=('R14.3',), edits=[
        (_A, "        if self._final_cause is None:\n            self._final_cause = 'cancel'\n",
             "        if self._final_cause is not None:\n            self._final_cause = 'cancel'\n")]),
    dict(name='R14.3 new failure cause lost in an abort helper', rules=('R14.3',), edits=[
        (_A, "            self._log.error('service %s failed: %s', uid, error)\n            return True\n",
             "            self._log.error('service %s failed: %s', uid, error)\n            self._final_cause = 'service_failed'\n            self._abort()\n            return True\n"),
        (_A, "    def _ctrl_cancel_pilots(self, msg):\n",
             "    def _abort(self):\n        self._final_cause = 'cancel'\n        self.stop()\n\n    def _ctrl_cancel_pilots(self, msg):\n")]),
    dict(name='R14.3 cancel handler resets the cause through a helper', rules=('R14.3',), edits=[
        (_A, "        self.publish(rpc.CONTROL_PUBSUB, {'cmd' : 'terminate',\n                                          'arg' : None})\n        self.stop()\n",
             "        self.publish(rpc.CONTROL_PUBSUB, {'cmd' : 'terminate',\n                                          'arg' : None})\n        self._reset_cause()\n        self.stop()\n"),
        (_A, "    def _ctrl_cancel_pilots(self, msg):\n",
             "    def _reset_cause(self):\n        self._final_cause = 'timeout'\n\n    def _ctrl_cancel_pilots(self, msg):\n")]),
    dict(name='R14.3 stop() takes a cause, lifetime check still uses the default', rules=('R14.3',), edits=[
        (_A, "    def stop(self):\n\n        self._log.info('stop agent')\n", "    def stop(self, cause='cancel'):\n\n        self._log.info('stop agent')\n"),
        (_A, "        if self._final_cause is None:\n            self._final_cause = 'cancel'\n", "        self._final_cause = cause\n")]),
    dict(name='R14.3 seed C14-b: lifetime check shuts down through the cancel handler', rules=('R14.3',), edits=[
        (_A, "                self._final_cause = 'timeout'\n                self.stop()\n",
             "                self._final_cause = 'timeout'\n                self._ctrl_cancel_pilots({'cmd': 'cancel_pilots',\n                                          'arg': {'uids': [self._pid]}})\n")]),
    dict(name='R14.3 cancel message built in a local first', rules=('R14.3',), edits=[
        (_A, "                self._final_cause = 'timeout'\n                self.stop()\n",
             "                self._final_cause = 'timeout'\n                uids = [self._pid]\n                req  = {'cmd': 'cancel_pilots', 'arg': {'uids': uids}}\n                self._ctrl_cancel_pilots(req)\n")]),
    dict(name='R14.3 shutdown helper overwrites the cause under a flag argument', rules=('R14.3',), edits=[
        (_A, "                self._final_cause = 'timeout'\n                self.stop()\n",
             "                self._final_cause = 'timeout'\n                self._shutdown(notify=self._cfg.get('notify', True))\n"),
        (_A, "    def _ctrl_cancel_pilots(self, msg):\n",
             "    def _shutdown(self, notify):\n        if notify:\n            self._final_cause = 'cancel'\n            self.publish(rpc.CONTROL_PUBSUB, {'cmd': 'terminate', 'arg': None})\n        self.stop()\n\n    def _ctrl_cancel_pilots(self, msg):\n")]),
    dict(name='R14.4 timeout mapped to CANCELED', rules=('R14.4',), edits=[
        (_A, "        if   self._final_cause == 'timeout'  : state = rps.DONE",
             "        if   self._final_cause == 'timeout'  : state = rps.CANCELED")]),
    dict(name='R14.4 cause literal renamed at the definition only', rules=('R14.4',), edits=[
        (_A, "                self._final_cause = 'timeout'\n", "                self._final_cause = 'runtime'\n")]),
    dict(name='R14.4 default branch reports CANCELED', rules=('R14.4',), edits=[
        (_A, "        else                                 : state = rps.FAILED",
             "        else                                 : state = rps.CANCELED")]),
    dict(name='R14.4 final update carries a fixed state', rules=('R14.4',), edits=[
        (_A, "                 'logfile': log,\n                 'state'  : state}",
             "                 'logfile': log,\n                 'state'  : rps.CANCELED}")]),
    dict(name='R14.4 cancel request mapped to FAILED', rules=('R14.4',), edits=[
        (_A, "        elif self._final_cause == 'cancel'   : state = rps.CANCELED",
             "        elif self._final_cause == 'cancel'   : state = rps.FAILED")]),
    dict(name='R14.6 bulk fix reverted: loop left on the result of _update_pilot', rules=('R14.6',), edits=[
        (_P, "                self._update_pilot(thing, publish=False)\n",
             "                if not self._update_pilot(thing, publish=False):\n                    return False\n")]),
    dict(name='R14.6 result kept in a local, then tested', rules=('R14.6',), edits=[
        (_P, "                self._update_pilot(thing, publish=False)\n",
             "                ok = self._update_pilot(thing, publish=False)\n                if not ok:\n                    break\n")]),
    dict(name='R14.6 break after the first pilot update', rules=('R14.6',), edits=[
        (_P, "                self._update_pilot(thing, publish=False)\n",
             "                self._update_pilot(thing, publish=False)\n                break\n")]),
    dict(name='R14.6 only final states are applied', rules=('R14.6',), edits=[
        (_P, "                self._update_pilot(thing, publish=False)\n",
             "                if thing['state'] in rps.FINAL:\n                    self._update_pilot(thing, publish=False)\n")]),
    dict(name='R14.6 only the first thing of the message is looked at', rules=('R14.6',), edits=[
        (_P, "        for thing in things:\n\n            if 'type' in thing and thing['type'] == 'pilot':",
             "        for thing in things[:1]:\n\n            if 'type' in thing and thing['type'] == 'pilot':")]),
    dict(name='R14.6 type test inverted', rules=('R14.6',), edits=[
        (_P, "            if 'type' in thing and thing['type'] == 'pilot':", "            if 'type' in thing and thing['type'] != 'pilot':")]),
    dict(name='R14.5 agent writes a differently named file', rules=('R14.5',), edits=[
        (_A, "ru.ru_open('./killme.signal', 'w')", "ru.ru_open('./kill.signal', 'w')")]),
    dict(name='R14.5 bootstrapper reads another file', rules=('R14.5',), edits=[
        (BOOT, "final_state=$(cat ./killme.signal)", "final_state=$(cat ./agent.signal)")]),
    dict(name='R14.5 bootstrapper default is DONE', rules=('R14.5',), edits=[
        (BOOT, "    final_state='FAILED'", "    final_state='DONE'")]),
    dict(name='R14.11 seed C14-g6: signal file read only for a non-zero agent exit code', rules=('R14.11',), edits=[
        (BOOT, "    final_state=$(cat ./killme.signal)\n    if ! test \"$AGENT_EXITCODE\" = \"0\"\n    then\n",
               "    if ! test \"$AGENT_EXITCODE\" = \"0\"\n    then\n        final_state=$(cat ./killme.signal)\n")]),
    dict(name='R14.11 signal file read behind an and-list on the exit code', rules=('R14.11',), edits=[
        (BOOT, "    final_state=$(cat ./killme.signal)\n",
               "    test \"$AGENT_EXITCODE\" = \"0\" && final_state=$(cat ./killme.signal)\n")]),
    dict(name='R14.11 signal file read in the else branch of its existence test', rules=('R14.11',), edits=[
        (BOOT, "if test -e \"./killme.signal\"\nthen\n    # this agent died cleanly, and we can rely on thestate information given.\n    final_state=$(cat ./killme.signal)\n    if ! test \"$AGENT_EXITCODE\" = \"0\"\n    then\n        echo \"changing exit code from $AGENT_EXITCODE to 0 for canceled pilot\"\n        AGENT_EXITCODE=0\n    fi\nfi\n",
               "if test -e \"./killme.signal\"\nthen\n    if ! test \"$AGENT_EXITCODE\" = \"0\"\n    then\n        echo \"changing exit code from $AGENT_EXITCODE to 0 for canceled pilot\"\n        AGENT_EXITCODE=0\n    fi\nelse\n    final_state=$(cat ./killme.signal)\nfi\n")]),
    dict(name='R14.5 signal file appended, not truncated', rules=('R14.5',), edits=[
        (_A, "ru.ru_open('./killme.signal', 'w')", "ru.ru_open('./killme.signal', 'a')")]),
    dict(name='R14.7 seed C14-c: intermediate states dropped for every final target', rules=('R14.7',), edits=[
        (_P, "            if target in [rps.CANCELED, rps.FAILED]:\n                # don't replay intermediate states\n                passed = passed[-1:]\n",
             "            if target in rps.FINAL:\n                # the pilot is gone: don't replay intermediate states\n                passed = passed[-1:]\n")]),
    dict(name='R14.7 truncation set hoisted and spelled as a tuple that includes DONE', rules=('R14.7',), edits=[
        (_P, "            if target in [rps.CANCELED, rps.FAILED]:\n                # don't replay intermediate states\n                passed = passed[-1:]\n",
             "            ended = (rps.DONE, rps.FAILED, rps.CANCELED)\n            if target in ended:\n                passed = passed[len(passed) - 1:]\n")]),
    dict(name='R14.7 intermediate states never replayed', rules=('R14.7',), edits=[
        (_P, "            if target in [rps.CANCELED, rps.FAILED]:\n                # don't replay intermediate states\n                passed = passed[-1:]\n",
             "            passed = passed[-1:]\n")]),
    dict(name='R14.7 truncation test with flipped polarity', rules=('R14.7',), edits=[
        (_P, "            if target in [rps.CANCELED, rps.FAILED]:\n                # don't replay intermediate states\n                passed = passed[-1:]\n",
             "            if target not in [rps.CANCELED, rps.FAILED]:\n                passed = passed[-1:]\n")]),
    dict(name='R14.7 replay skips the first passed state', rules=('R14.7',), edits=[
        (_P, "            if target in [rps.CANCELED, rps.FAILED]:\n                # don't replay intermediate states\n                passed = passed[-1:]\n",
             "            if target in [rps.CANCELED, rps.FAILED]:\n                passed = passed[-1:]\n            elif len(passed) > 2:\n                passed = passed[1:]\n")]),
    dict(name='R14.7 Pilot._update no longer exempts CANCELED from the single-step test', rules=('R14.7',), edits=[
        (_F, "        if target not in [rps.FAILED, rps.CANCELED]:\n",
             "        if target not in [rps.FAILED]:\n")]),
    dict(name='R14.10 seed C14-g5: scheduler stores the raw notified state', rules=('R14.10',), edits=[
        (_T, "                target, passed = rps._pilot_state_progress(pid, current, target)\n",
             "                _, passed = rps._pilot_state_progress(pid, current, target)\n")]),
    dict(name='R14.10 scheduler no longer normalises the notified state', rules=('R14.10',), edits=[
        (_T, "                target, passed = rps._pilot_state_progress(pid, current, target)\n",
             "                passed = [target]\n")]),
    dict(name='R14.10 scheduler records only when nothing changed', rules=('R14.10',), edits=[
        (_T, "                if current != target:\n                    to_update.append(pid)\n",
             "                if current == target:\n                    to_update.append(pid)\n")]),
    dict(name='R14.10 add_pilots copies the state of the pilot dict into the record', rules=('R14.10',), edits=[
        (_T, "                    self._pilots[pid]['pilot'] = pilot\n",
             "                    self._pilots[pid]['pilot'] = pilot\n                    self._pilots[pid]['state'] = pilot['state']\n")]),
    dict(name='R14.8 seed C14-d: stop(cause) records unconditionally, terminate path uses the default', rules=('R14.8',), edits=[
        (_A, "                self._final_cause = 'timeout'\n                self.stop()\n",
             "                self.stop(cause='timeout')\n"),
        (_A, "    def stop(self):\n\n        self._log.info('stop agent')\n",
             "    def stop(self, cause='cancel'):\n\n        self._log.info('stop agent')\n"),
        (_A, "        if self._final_cause is None:\n            self._final_cause = 'cancel'\n",
             "        self._final_cause = cause\n"),
        (_A, "        self._final_cause = 'cancel'\n        self.publish(rpc.CONTROL_PUBSUB, {'cmd' : 'terminate',\n                                          'arg' : None})\n        self.stop()\n",
             "        self.publish(rpc.CONTROL_PUBSUB, {'cmd' : 'terminate',\n                                          'arg' : None})\n        self.stop(cause='cancel')\n")]),
    dict(name='R14.8 same with the store in a setter helper', rules=('R14.8',), edits=[
        (_A, "                self._final_cause = 'timeout'\n                self.stop()\n",
             "                self.stop(cause='timeout')\n"),
        (_A, "    def stop(self):\n\n        self._log.info('stop agent')\n",
             "    def stop(self, cause='cancel'):\n\n        self._log.info('stop agent')\n"),
        (_A, "        if self._final_cause is None:\n            self._final_cause = 'cancel'\n",
             "        self._set_cause(cause)\n"),
        (_A, "        self._final_cause = 'cancel'\n        self.publish(rpc.CONTROL_PUBSUB, {'cmd' : 'terminate',\n                                          'arg' : None})\n        self.stop()\n",
             "        self.publish(rpc.CONTROL_PUBSUB, {'cmd' : 'terminate',\n                                          'arg' : None})\n        self.stop(cause='cancel')\n"),
        (_A, "    def _ctrl_cancel_pilots(self, msg):\n",
             "    def _set_cause(self, cause):\n        self._final_cause = cause\n\n    def _ctrl_cancel_pilots(self, msg):\n")]),
    dict(name='R14.8 stop(cause=None) falls back to cancel without looking at the recorded cause', rules=('R14.8',), edits=[
        (_A, "                self._final_cause = 'timeout'\n                self.stop()\n",
             "                self.stop('timeout')\n"),
        (_A, "    def stop(self):\n\n        self._log.info('stop agent')\n",
             "    def stop(self, cause=None):\n\n        self._log.info('stop agent')\n"),
        (_A, "        if self._final_cause is None:\n            self._final_cause = 'cancel'\n",
             "        self._final_cause = cause or 'cancel'\n")]),
]

SILENT = [
    dict(name='stop keeps an earlier cause (truthiness test)', edits=[
        (_A, "        if self._final_cause is None:\n            self._final_cause = 'cancel'\n",
             "        if not self._final_cause:\n            self._final_cause = 'cancel'\n")]),
    # (this variant used to drop the `is None` guard of stop(): that is seed
    # C14-d - a later stop() from the terminate path overwrites 'timeout' -
    # and not behaviour preserving; the guard is kept now)
    dict(name='cause passed to stop() as parameter', edits=[
        (_A, "    def stop(self):\n\n        self._log.info('stop agent')\n", "    def stop(self, cause='cancel'):\n\n        self._log.info('stop agent')\n"),
        (_A, "        if self._final_cause is None:\n            self._final_cause = 'cancel'\n", "        if self._final_cause is None:\n            self._final_cause = cause\n"),
        (_A, "                self._final_cause = 'timeout'\n                self.stop()\n",
             "                self._final_cause = 'timeout'\n                self.stop(cause='timeout')\n")]),
    dict(name='shutdown helper called with a constant flag that skips the overwrite', edits=[
        (_A, "                self._final_cause = 'timeout'\n                self.stop()\n",
             "                self._final_cause = 'timeout'\n                self._shutdown(notify=False)\n"),
        (_A, "    def _ctrl_cancel_pilots(self, msg):\n",
             "    def _shutdown(self, notify):\n        if notify:\n            self._final_cause = 'cancel'\n            self.publish(rpc.CONTROL_PUBSUB, {'cmd': 'terminate', 'arg': None})\n        self.stop()\n\n    def _ctrl_cancel_pilots(self, msg):\n")]),
    dict(name='lifetime check sends the terminate command itself, keeps its cause', edits=[
        (_A, "                self._final_cause = 'timeout'\n                self.stop()\n",
             "                self._final_cause = 'timeout'\n                self.publish(rpc.CONTROL_PUBSUB, {'cmd' : 'terminate',\n                                                  'arg' : None})\n                self.stop()\n")]),
    dict(name='helper overwrites the cause only when agent state says so (not decided)', edits=[
        (_A, "                self._final_cause = 'timeout'\n                self.stop()\n",
             "                self._final_cause = 'timeout'\n                self._shutdown()\n"),
        (_A, "    def _ctrl_cancel_pilots(self, msg):\n",
             "    def _shutdown(self):\n        if self._service_uids_running and self._final_cause is None:\n            self._final_cause = 'cancel'\n        self.stop()\n\n    def _ctrl_cancel_pilots(self, msg):\n")]),
    dict(name='stop() records another cause with the same final state', edits=[
        (_A, "        if self._final_cause is None:\n            self._final_cause = 'cancel'\n", "        if self._final_cause is None:\n            self._final_cause = 'sys.exit'\n")]),
    dict(name='cause table as dict lookup', edits=[
        (_A, "        if   self._final_cause == 'timeout'  : state = rps.DONE\n        elif self._final_cause == 'cancel'   : state = rps.CANCELED\n        elif self._final_cause == 'sys.exit' : state = rps.CANCELED\n        else                                 : state = rps.FAILED\n",
             "        state = {'timeout': rps.DONE,\n                 'cancel' : rps.CANCELED}.get(self._final_cause, rps.FAILED)\n")]),
    dict(name='cause literals renamed consistently, local alias in finalize', edits=[
        (_A, "                self._final_cause = 'timeout'\n", "                self._final_cause = 'runtime'\n"),
        (_A, "        if   self._final_cause == 'timeout'  : state = rps.DONE\n        elif self._final_cause == 'cancel'   : state = rps.CANCELED\n        elif self._final_cause == 'sys.exit' : state = rps.CANCELED\n",
             "        cause = self._final_cause\n        if   cause == 'runtime'  : state = rps.DONE\n        elif cause in ['cancel', 'sys.exit']: state = rps.CANCELED\n")]),
    dict(name='signal file written with an f-string, no ./ prefix', edits=[
        (_A, "        with ru.ru_open('./killme.signal', 'w') as fout:\n            fout.write('%s\\n' % state)\n",
             "        with ru.ru_open('killme.signal', 'w') as fout:\n            fout.write(f'{state}\\n')\n")]),
    dict(name='pilot things filtered by a comprehension, then a plain loop', edits=[
        (_P, "        for thing in things:\n\n            if 'type' in thing and thing['type'] == 'pilot':\n\n                self._log.debug('state push: %s: %s', thing['uid'],\n                                thing['state'])\n\n                # we got the state update from the state callback - don't\n                # publish it again\n                self._update_pilot(thing, publish=False)\n",
             "        pilots = [t for t in things if t.get('type') == 'pilot']\n        for thing in pilots:\n            self._update_pilot(thing, publish=False)\n")]),
    dict(name='non-pilot things skipped with continue', edits=[
        (_P, "        for thing in things:\n\n            if 'type' in thing and thing['type'] == 'pilot':\n\n                self._log.debug('state push: %s: %s', thing['uid'],\n                                thing['state'])\n\n                # we got the state update from the state callback - don't\n                # publish it again\n                self._update_pilot(thing, publish=False)\n",
             "        for thing in things:\n\n            if thing.get('type') != 'pilot':\n                continue\n\n            self._log.debug('state push: %s: %s', thing['uid'], thing['state'])\n            self._update_pilot(thing, publish=False)\n")]),
    dict(name='things normalised with ru.as_list, termination checked per thing after the update', edits=[
        (_P, "        if isinstance(arg, list): things =  arg\n        else                    : things = [arg]\n", "        things = ru.as_list(arg)\n"),
        (_P, "                self._update_pilot(thing, publish=False)\n",
             "                self._update_pilot(thing, publish=False)\n                if self._terminate.is_set():\n                    return False\n")]),
    dict(name='unknown pilot: fetched with get and tested for None, pilot cached', edits=[
        (_P, "            if pid not in self._pilots:\n                return   # this is not an error\n\n            # only update on state changes\n            current = self._pilots[pid].state\n",
             "            pilot = self._pilots.get(pid)\n            if not pilot:\n                return   # this is not an error\n\n            current = pilot.state\n")]),
    dict(name='unknown pilot: lookup in a try block, KeyError returns', edits=[
        (_P, "            if pid not in self._pilots:\n                return   # this is not an error\n\n            # only update on state changes\n            current = self._pilots[pid].state\n",
             "            try:\n                pilot = self._pilots[pid]\n            except KeyError:\n                return   # this is not an error\n\n            current = pilot.state\n")]),
    dict(name='unknown pilot: membership kept in a local, tested later', edits=[
        (_P, "            if pid not in self._pilots:\n                return   # this is not an error\n\n            # only update on state changes\n            current = self._pilots[pid].state\n",
             "            known = pid in self._pilots\n            if not known:\n                return   # this is not an error\n\n            current = self._pilots[pid].state\n")]),
    dict(name='unknown pilot: state read under the positive test, return otherwise', edits=[
        (_P, "            if pid not in self._pilots:\n                return   # this is not an error\n\n            # only update on state changes\n            current = self._pilots[pid].state\n",
             "            if pid in self._pilots:\n                current = self._pilots[pid].state\n            else:\n                return   # this is not an error\n")]),
    dict(name='unknown-pilot guard as positive nesting', edits=[
        (_P, "            if pid not in self._pilots:\n                return   # this is not an error\n\n            # only update on state changes\n            current = self._pilots[pid].state\n            target  = pilot_dict['state']\n\n            # always update the pilot instance, even if state didn't change\n            if current == target:\n                self._pilots[pid]._update(pilot_dict)\n                return\n",
             "            if pid not in self._pilots:\n                return   # this is not an error\n\n            # only update on state changes\n            current = self._pilots[pid].state\n            target  = pilot_dict['state']\n\n            # always update the pilot instance, even if state didn't change\n            if current != target:\n                pass\n            else:\n                self._pilots[pid]._update(pilot_dict)\n                return\n")]),
    dict(name='replay loop with the advance before the update', edits=[
        (_P, "                pilot_dict['state'] = s\n                self._pilots[pid]._update(pilot_dict)\n\n                if advance:\n                    self.advance(pilot_dict, s, publish=publish, push=False)\n",
             "                pilot_dict['state'] = s\n                if advance:\n                    self.advance(pilot_dict, s, publish=publish, push=False)\n\n                self._pilots[pid]._update(pilot_dict)\n")]),
    dict(name='progress guard written as cur < tgt', edits=[
        (_S, "    if cur >= tgt:\n        # nothing to do, a similar or better progression happened earlier\n        return [current, []]\n\n    # dig out all intermediate states, skip current\n    passed = list()\n    for i in range(cur + 1,tgt):\n        passed.append(_pilot_state_inv[i])\n\n    # append target state to trigger notification of transition\n    passed.append(target)\n\n    return target, passed\n\n\n# ------------------------------------------------------------------------------\n#\ndef _pilot_state_collapse",
             "    if tgt > cur:\n        passed = []\n        for step in range(1 + cur, tgt):\n            passed.append(_pilot_state_inv[step])\n        passed.append(target)\n        return target, passed\n\n    return [current, list()]\n\n\n# ------------------------------------------------------------------------------\n#\ndef _pilot_state_collapse")]),
    dict(name='bootstrapper: existence test with [ ] and then on the same line', edits=[
        (BOOT, "if test -e \"./killme.signal\"\nthen\n    # this agent died cleanly",
               "if [ -e ./killme.signal ]; then\n    # this agent died cleanly")]),
    dict(name='bootstrapper: signal file read after the exit code is reset', edits=[
        (BOOT, "    final_state=$(cat ./killme.signal)\n    if ! test \"$AGENT_EXITCODE\" = \"0\"\n    then\n        echo \"changing exit code from $AGENT_EXITCODE to 0 for canceled pilot\"\n        AGENT_EXITCODE=0\n    fi\n",
               "    if ! test \"$AGENT_EXITCODE\" = \"0\"\n    then\n        echo \"changing exit code from $AGENT_EXITCODE to 0 for canceled pilot\"\n        AGENT_EXITCODE=0\n    fi\n    final_state=$(cat ./killme.signal)\n")]),
    dict(name='bootstrapper: missing signal file handled first, read in the else branch', edits=[
        (BOOT, "if test -e \"./killme.signal\"\nthen\n    # this agent died cleanly, and we can rely on thestate information given.\n    final_state=$(cat ./killme.signal)\n",
               "if ! test -e \"./killme.signal\"\nthen\n    echo 'no signal file'\nelse\n    final_state=$(cat ./killme.signal)\n")]),
    dict(name='bootstrapper: signal file read hoisted in front of the block as an and-list on the file', edits=[
        (BOOT, "if test -e \"./killme.signal\"\nthen\n    # this agent died cleanly, and we can rely on thestate information given.\n    final_state=$(cat ./killme.signal)\n",
               "test -s ./killme.signal && final_state=$(cat ./killme.signal)\nif test -e \"./killme.signal\"\nthen\n")]),
    dict(name='bootstrapper quotes the file differently', edits=[
        (BOOT, "final_state=$(cat ./killme.signal)", "final_state=$(cat killme.signal)")]),
    dict(name='cause passed to stop() by every caller, first cause wins', edits=[
        (_A, "                self._final_cause = 'timeout'\n                self.stop()\n",
             "                self.stop(cause='timeout')\n"),
        (_A, "    def stop(self):\n\n        self._log.info('stop agent')\n",
             "    def stop(self, cause='cancel'):\n\n        self._log.info('stop agent')\n"),
        (_A, "        if self._final_cause is None:\n            self._final_cause = 'cancel'\n",
             "        if self._final_cause is None:\n            self._final_cause = cause\n"),
        (_A, "        self._final_cause = 'cancel'\n        self.publish(rpc.CONTROL_PUBSUB, {'cmd' : 'terminate',\n                                          'arg' : None})\n        self.stop()\n",
             "        self.publish(rpc.CONTROL_PUBSUB, {'cmd' : 'terminate',\n                                          'arg' : None})\n        self.stop(cause='cancel')\n")]),
    dict(name='stop() guard reads the cause into a local first', edits=[
        (_A, "        if self._final_cause is None:\n            self._final_cause = 'cancel'\n",
             "        recorded = self._final_cause\n        if recorded is None:\n            self._final_cause = 'cancel'\n")]),
    dict(name='stop() guard as or-expression', edits=[
        (_A, "        if self._final_cause is None:\n            self._final_cause = 'cancel'\n",
             "        self._final_cause = self._final_cause or 'cancel'\n")]),
    dict(name='stop() guard in negated / else form', edits=[
        (_A, "        if self._final_cause is None:\n            self._final_cause = 'cancel'\n",
             "        if self._final_cause is not None:\n            pass\n        else:\n            self._final_cause = 'cancel'\n")]),
    dict(name='causes recorded through a guarded setter helper', edits=[
        (_A, "                self._final_cause = 'timeout'\n                self.stop()\n",
             "                self._record_cause('timeout')\n                self.stop()\n"),
        (_A, "        if self._final_cause is None:\n            self._final_cause = 'cancel'\n",
             "        self._record_cause('cancel')\n"),
        (_A, "    def _ctrl_cancel_pilots(self, msg):\n",
             "    def _record_cause(self, cause):\n        if self._final_cause is None:\n            self._final_cause = cause\n\n    def _ctrl_cancel_pilots(self, msg):\n")]),
    dict(name='truncation test with hoisted container, truncated list under a new name', edits=[
        (_P, "            if target in [rps.CANCELED, rps.FAILED]:\n                # don't replay intermediate states\n                passed = passed[-1:]\n\n            for s in passed:\n",
             "            abnormal = (rps.FAILED, rps.CANCELED)\n            replay   = passed\n            if target in abnormal:\n                replay = passed[-1:]\n\n            for s in replay:\n")]),
    dict(name='truncation in negated / else form with an explicit index', edits=[
        (_P, "            if target in [rps.CANCELED, rps.FAILED]:\n                # don't replay intermediate states\n                passed = passed[-1:]\n",
             "            if target not in [rps.CANCELED, rps.FAILED]:\n                pass\n            else:\n                passed = passed[len(passed) - 1:]\n")]),
    dict(name='truncation as two equality tests, last element rebuilt if there is one', edits=[
        (_P, "            if target in [rps.CANCELED, rps.FAILED]:\n                # don't replay intermediate states\n                passed = passed[-1:]\n",
             "            if target == rps.FAILED or target == rps.CANCELED:\n                if passed:\n                    passed = [passed[-1]]\n")]),
    dict(name='truncation as conditional expression', edits=[
        (_P, "            if target in [rps.CANCELED, rps.FAILED]:\n                # don't replay intermediate states\n                passed = passed[-1:]\n",
             "            passed = passed[-1:] if target in [rps.CANCELED, rps.FAILED] else passed\n")]),
    dict(name='truncation in an extracted helper method', edits=[
        (_P, "            if target in [rps.CANCELED, rps.FAILED]:\n                # don't replay intermediate states\n                passed = passed[-1:]\n",
             "            passed = self._trim_passed(target, passed)\n"),
        (_P, "    def _call_pilot_callbacks(self, pilot):\n",
             "    def _trim_passed(self, target, passed):\n\n        if target in [rps.CANCELED, rps.FAILED]:\n            return passed[-1:]\n        return passed\n\n\n    # --------------------------------------------------------------------------\n    #\n    def _call_pilot_callbacks(self, pilot):\n")]),
    dict(name='truncation in place', edits=[
        (_P, "            if target in [rps.CANCELED, rps.FAILED]:\n                # don't replay intermediate states\n                passed = passed[-1:]\n",
             "            if target in [rps.CANCELED, rps.FAILED]:\n                del passed[:-1]\n")]),
    dict(name='replay list copied, truncation by filtering', edits=[
        (_P, "            if target in [rps.CANCELED, rps.FAILED]:\n                # don't replay intermediate states\n                passed = passed[-1:]\n",
             "            if target in [rps.CANCELED, rps.FAILED]:\n                passed = [x for x in passed if x == target]\n")]),
    dict(name='scheduler: store takes the state from the notification, still under the changed-test', edits=[
        (_T, "                    self._pilots[pid]['state'] = target\n",
             "                    self._pilots[pid]['state'] = pilot['state']\n")]),
    dict(name='scheduler: progress result under other names', edits=[
        (_T, "                target, passed = rps._pilot_state_progress(pid, current, target)\n\n                if current != target:\n                    to_update.append(pid)\n                    self._pilots[pid]['state'] = target\n",
             "                new_state, replay = rps._pilot_state_progress(pid, current, target)\n                passed = replay\n\n                if new_state != current:\n                    to_update.append(pid)\n                    self._pilots[pid]['state'] = new_state\n")]),
    dict(name='scheduler: pilot record cached in a local', edits=[
        (_T, "                target  = pilot['state']\n                current = self._pilots[pid]['state']\n",
             "                record  = self._pilots[pid]\n                target  = pilot['state']\n                current = record['state']\n"),
        (_T, "                    self._pilots[pid]['state'] = target\n",
             "                    record['state'] = target\n")]),
    dict(name='scheduler: unchanged state skipped with continue, record created with setdefault', edits=[
        (_T, "                if pid not in self._pilots:\n                    self._pilots[pid] = {'role'  : None,\n                                         'state' : None,\n                                         'pilot' : None,\n                                         'info'  : dict()  # scheduler private info\n                                         }\n",
             "                self._pilots.setdefault(pid, {'role' : None, 'state': None,\n                                              'pilot': None, 'info' : dict()})\n"),
        (_T, "                if current != target:\n                    to_update.append(pid)\n                    self._pilots[pid]['state'] = target\n                    self._log.debug('update pilot state: %s -> %s', current, passed)\n",
             "                if current == target:\n                    continue\n\n                to_update.append(pid)\n                self._pilots[pid]['state'] = target\n                self._log.debug('update pilot state: %s -> %s', current, passed)\n")]),
    dict(name='scheduler: the store in an extracted helper that gets the record', edits=[
        (_T, "                    self._pilots[pid]['state'] = target\n",
             "                    self._record_state(self._pilots[pid], target)\n"),
        (_T, "    def _update_task_states(self, tasks):\n",
             "    def _record_state(self, record, state):\n\n        record['state'] = state\n\n\n    # --------------------------------------------------------------------------\n    #\n    def _update_task_states(self, tasks):\n")]),
    dict(name='scheduler: one pilot handled by an extracted method', edits=[
        (_T, "                pid = pilot['uid']\n\n                if pid not in self._pilots:\n                    self._pilots[pid] = {'role'  : None,\n                                         'state' : None,\n                                         'pilot' : None,\n                                         'info'  : dict()  # scheduler private info\n                                         }\n\n                target  = pilot['state']\n                current = self._pilots[pid]['state']\n\n                # enforce state model order\n                target, passed = rps._pilot_state_progress(pid, current, target)\n\n                if current != target:\n                    to_update.append(pid)\n                    self._pilots[pid]['state'] = target\n                    self._log.debug('update pilot state: %s -> %s', current, passed)\n",
             "                if self._update_pilot_state(pilot):\n                    to_update.append(pilot['uid'])\n"),
        (_T, "    def _update_task_states(self, tasks):\n",
             "    def _update_pilot_state(self, pilot):\n\n        pid = pilot['uid']\n\n        if pid not in self._pilots:\n            self._pilots[pid] = {'role'  : None,\n                                 'state' : None,\n                                 'pilot' : None,\n                                 'info'  : dict()}\n\n        current = self._pilots[pid]['state']\n        target, passed = rps._pilot_state_progress(pid, current,\n                                                   pilot['state'])\n        if current == target:\n            return False\n\n        self._pilots[pid]['state'] = target\n        self._log.debug('update pilot state: %s -> %s', current, passed)\n        return True\n\n\n    # --------------------------------------------------------------------------\n    #\n    def _update_task_states(self, tasks):\n")]),
    dict(name='Pilot._update exemption test with hoisted container', edits=[
        (_F, "        if target not in [rps.FAILED, rps.CANCELED]:\n",
             "        anywhere = (rps.CANCELED, rps.FAILED)\n        if target not in anywhere:\n")]),
]


# ------------------------------------------------------------------------------
# behaviour-preserving refactorings of the robustness corpus as silence variants
#
def corpus_variants(pid, root='/repo', seeded=None):
    """SILENT entries built from /verif/seeded/<pid>-r<n>/patch.diff: every
    hunk becomes one (file, old, new) text edit.  A patch whose hunks do not
    apply exactly once to the tree as it is now is left out."""
    import glob
    import json
    seeded = seeded or os.path.join(os.path.dirname(os.path.dirname(
        os.path.dirname(os.path.abspath(__file__)))), 'seeded')
    out = []
    for patch in sorted(glob.glob(os.path.join(seeded, '%s-r*' % pid,
                                               'patch.diff'))):
        tag = os.path.basename(os.path.dirname(patch))
        meta = os.path.join(os.path.dirname(patch), 'meta.json')
        try:
            if os.path.exists(meta) and \
                    json.load(open(meta)).get('kind') != 'refactoring':
                continue
            edits = _edits_from_patch(open(patch).read())
        except Exception:
            continue
        ok = bool(edits)
        texts = {}
        for rel, old, new in edits:
            try:
                src = texts.get(rel)
                if src is None:
                    with open(os.path.join(root, 'src/radical/pilot', rel),
                              encoding='utf-8') as fh:
                        src = fh.read()
            except OSError:
                ok = False
                break
            if src.count(old) != 1:
                ok = False
                break
            texts[rel] = src.replace(old, new)
        if ok:
            out.append(dict(name='corpus %s (behaviour-preserving '
                            'refactoring)' % tag, edits=edits))
    return out


def _edits_from_patch(text):
    edits = []
    rel = None
    old, new = [], []

    def flush():
        if rel and (old or new) and old != new:
            edits.append((rel, ''.join(old), ''.join(new)))
    for line in text.splitlines(True):
        if line.startswith('diff --git') or line.startswith('index ') or \
                line.startswith('--- '):
            continue
        if line.startswith('+++ '):
            flush()
            old, new = [], []
            path = line[4:].strip()
            path = path[2:] if path.startswith('b/') else path
            pre = 'src/radical/pilot/'
            rel = path[len(pre):] if path.startswith(pre) else None
            continue
        if line.startswith('@@'):
            flush()
            old, new = [], []
            continue
        if rel is None:
            continue
        if line.startswith('-'):
            old.append(line[1:])
        elif line.startswith('+'):
            new.append(line[1:])
        elif line.startswith(' ') or line == '\n':
            old.append(line[1:] if line.startswith(' ') else line)
            new.append(line[1:] if line.startswith(' ') else line)
    flush()
    return edits


SILENT += corpus_variants('C14')


def _helper_variant():
    """the replay loop extracted into a helper (refactoring C14-r7) which the
    activation handler then also calls with the raw state of its message"""
    patch = os.path.join(os.path.dirname(os.path.dirname(os.path.dirname(
        os.path.abspath(__file__)))), 'seeded', 'C14-r7', 'patch.diff')
    try:
        edits = _edits_from_patch(open(patch).read())
    except OSError:
        return []
    return [dict(name='R14.2 extracted replay helper also driven by the '
                 'activation handler with the raw state', rules=('R14.2',),
                 edits=edits + [
        (_P, "            pilot = arg['pilot']\n            self._update_pilot(pilot, publish=True)\n",
             "            pilot = arg['pilot']\n            self._replay_pilot_states(self._pilots[pilot['uid']], pilot,\n                                      [pilot['state']], publish=True,\n                                      advance=False)\n")])]


MUTATIONS += _helper_variant()


def _foreign_corpus(tags):
    """refactorings collected for other properties that rewrite code this
    module evaluates"""
    out = []
    base = os.path.join(os.path.dirname(os.path.dirname(os.path.dirname(
        os.path.abspath(__file__)))), 'seeded')
    for tag in tags:
        try:
            edits = _edits_from_patch(open(os.path.join(
                base, tag, 'patch.diff')).read())
        except OSError:
            continue
        if edits:
            out.append(dict(name='corpus %s (behaviour-preserving '
                            'refactoring of another property)' % tag,
                            edits=edits))
    return out


# C12-r6: pilot records of the tmgr scheduler fetched / created by a helper
# that returns them by reference; C13-r8: lazy generator filter with a nested
# predicate in _state_sub_cb, cached pilot in _update_pilot
SILENT += _foreign_corpus(['C12-r6', 'C13-r8'])


# ------------------------------------------------------------------------------
# round 5: R14.12 (one record object per pilot in the tmgr scheduler) and the
# extension of R14.6 (a thing that is no pilot does not end the loop)
#
_REC_U = ("                if pid not in self._pilots:\n"
          "                    self._pilots[pid] = {'role'  : None,\n"
          "                                         'state' : None,\n"
          "                                         'pilot' : None,\n"
          "                                         'info'  : dict()  # scheduler private info\n"
          "                                         }\n")
_REC_A = ("                    else:\n"
          "                        self._pilots[pid] = {'role'  : None,\n"
          "                                             'state' : None,\n"
          "                                             'pilot' : None,\n"
          "                                             'info'  : dict()\n"
          "                                            }\n")
_TOUPD = "        to_update = list()\n\n        with self._pilots_lock:\n"
_THING_LOOP = "        for thing in things:\n\n            if 'type' in thing and thing['type'] == 'pilot':\n"

MUTATIONS += [
    dict(name='R14.12 seed C14-h5: the record of a new pilot hoisted out of the loop and shared',
         rules=('R14.12',), edits=[
        (_T, _TOUPD, "        to_update = list()\n"
                     "        unknown   = {'role': None, 'state': None, 'pilot': None, 'info': dict()}\n\n"
                     "        with self._pilots_lock:\n"),
        (_T, _REC_U, "                if pid not in self._pilots:\n"
                     "                    self._pilots[pid] = unknown\n")]),
    dict(name='R14.12 the same at the sibling site: add_pilots shares one record among the pilots of a command',
         rules=('R14.12',), edits=[
        (_T, "            pilots = arg['pilots']\n\n            with self._pilots_lock:\n\n                for pilot in pilots:\n\n                    pid = pilot['uid']\n",
             "            pilots = arg['pilots']\n"
             "            fresh  = {'role': None, 'state': None, 'pilot': None, 'info': dict()}\n\n"
             "            with self._pilots_lock:\n\n                for pilot in pilots:\n\n                    pid = pilot['uid']\n"),
        (_T, _REC_A, "                    else:\n                        self._pilots[pid] = fresh\n")]),
    dict(name='R14.12 shared template stored through setdefault', rules=('R14.12',), edits=[
        (_T, _TOUPD, "        to_update = list()\n"
                     "        unknown   = dict(role=None, state=None, pilot=None, info=dict())\n\n"
                     "        with self._pilots_lock:\n"),
        (_T, _REC_U, "                self._pilots.setdefault(pid, unknown)\n")]),
    dict(name='R14.12 template made in the loop over the pilots reaches the store through a second name made outside',
         rules=('R14.12',), edits=[
        (_T, _TOUPD, "        to_update = list()\n"
                     "        template  = {'role': None, 'state': None, 'pilot': None, 'info': dict()}\n\n"
                     "        with self._pilots_lock:\n"),
        (_T, _REC_U, "                if pid not in self._pilots:\n"
                     "                    record = template\n"
                     "                    self._pilots[pid] = record\n")]),
    dict(name='R14.6 seed C13-h4: a task thing makes the pilot manager return from the loop',
         rules=('R14.6',), edits=[
        (_P, _THING_LOOP, "        for thing in things:\n\n"
                          "            if thing.get('type') == 'task':\n"
                          "                # task updates are handled by the tmgr\n"
                          "                return True\n\n"
                          "            if 'type' in thing and thing['type'] == 'pilot':\n")]),
    dict(name='R14.6 task test held by a local, break', rules=('R14.6',), edits=[
        (_P, _THING_LOOP, "        for thing in things:\n\n"
                          "            is_task = thing.get('type') == 'task'\n"
                          "            if is_task:\n"
                          "                break\n\n"
                          "            if 'type' in thing and thing['type'] == 'pilot':\n")]),
    dict(name='R14.6 anything that is no pilot ends the callback', rules=('R14.6',), edits=[
        (_P, _THING_LOOP, "        for thing in things:\n\n"
                          "            if thing['type'] not in ['pilot']:\n"
                          "                return True\n\n"
                          "            if 'type' in thing and thing['type'] == 'pilot':\n")]),
]

SILENT += [
    dict(name='R14.12 record made by a local in the iteration, then stored', edits=[
        (_T, _REC_U, "                if pid not in self._pilots:\n"
                     "                    record = {'role'  : None,\n"
                     "                              'state' : None,\n"
                     "                              'pilot' : None,\n"
                     "                              'info'  : dict()}\n"
                     "                    self._pilots[pid] = record\n")]),
    dict(name='R14.12 template in front of the loop, copied per pilot', edits=[
        (_T, _TOUPD, "        to_update = list()\n"
                     "        template  = {'role': None, 'state': None, 'pilot': None}\n\n"
                     "        with self._pilots_lock:\n"),
        (_T, _REC_U, "                if pid not in self._pilots:\n"
                     "                    self._pilots[pid] = dict(template, info=dict())\n")]),
    dict(name='R14.12 record made by a helper method that returns a new dict', edits=[
        (_T, _REC_U, "                if pid not in self._pilots:\n"
                     "                    self._pilots[pid] = self._new_record()\n"),
        (_T, "    # --------------------------------------------------------------------------\n    #\n    def _update_pilot_states(self, pilots):\n",
             "    # --------------------------------------------------------------------------\n    #\n"
             "    def _new_record(self):\n\n"
             "        return {'role': None, 'state': None, 'pilot': None, 'info': dict()}\n\n\n"
             "    # --------------------------------------------------------------------------\n    #\n    def _update_pilot_states(self, pilots):\n")]),
    dict(name='R14.12 sibling site: add_pilots makes the record with dict() and keywords', edits=[
        (_T, _REC_A, "                    else:\n"
                     "                        self._pilots[pid] = dict(role=None, state=None,\n"
                     "                                                 pilot=None, info=dict())\n")]),
    dict(name='R14.6 task things skipped by an explicit continue', edits=[
        (_P, _THING_LOOP, "        for thing in things:\n\n"
                          "            if thing.get('type') == 'task':\n"
                          "                # task updates are handled by the tmgr\n"
                          "                continue\n\n"
                          "            if 'type' in thing and thing['type'] == 'pilot':\n")]),
    dict(name='R14.6 type read into a local, non-pilots logged and skipped', edits=[
        (_P, _THING_LOOP, "        for thing in things:\n\n"
                          "            kind = thing.get('type')\n"
                          "            if kind != 'pilot':\n"
                          "                self._log.debug('pmgr ignores %s update', kind)\n"
                          "                continue\n\n"
                          "            if 'type' in thing and thing['type'] == 'pilot':\n")]),
    dict(name='R14.6 kinds that are not for the pilot manager listed, skipped with continue', edits=[
        (_P, _THING_LOOP, "        for thing in things:\n\n"
                          "            if thing.get('type') in ['task', 'service']:\n"
                          "                continue\n\n"
                          "            if 'type' in thing and thing['type'] == 'pilot':\n")]),
]


# ------------------------------------------------------------------------------
# round 6: R14.13 (a record of the tmgr scheduler that exists is not replaced
# or dropped) and R14.14 (CANCELED only for a control message that names this
# pilot)
#
_ADD_OLD = ("                    if pid in self._pilots:\n"
            "                        if self._pilots[pid]['role'] == ADDED:\n"
            "                            raise ValueError('pilot already added (%s)' % pid)\n"
            "                    else:\n"
            "                        self._pilots[pid] = {'role'  : None,\n"
            "                                             'state' : None,\n"
            "                                             'pilot' : None,\n"
            "                                             'info'  : dict()\n"
            "                                            }\n"
            "\n"
            "                    self._pilots[pid]['role']  = ADDED\n"
            "                    self._pilots[pid]['pilot'] = pilot\n")
_RAISE_ADDED = "raise ValueError('pilot already added (%s)' % pid)\n"
_CANCEL_GUARD = ("        arg = msg['arg']\n\n"
                 "        if self._pid not in arg.get('uids'):\n"
                 "            self._log.debug('ignore cancel %s', msg)\n"
                 "            return True\n")
_CANCEL_BODY = ("        self._log.info('cancel pilot cmd')\n"
                "        self._final_cause = 'cancel'\n"
                "        self.publish(rpc.CONTROL_PUBSUB, {'cmd' : 'terminate',\n"
                "                                          'arg' : None})\n"
                "        self.stop()\n\n"
                "        # work is done - unregister this cb\n"
                "        return False\n")

MUTATIONS += [
    dict(name='R14.13 seed C14-i5: add_pilots rebuilds the record of a pilot the scheduler knows already',
         rules=('R14.13',), edits=[
        (_T, _ADD_OLD,
             "                    if self._pilots.get(pid, {}).get('role') == ADDED:\n"
             "                        " + _RAISE_ADDED + "\n"
             "                    self._pilots[pid] = {'role'  : ADDED,\n"
             "                                         'state' : None,\n"
             "                                         'pilot' : pilot,\n"
             "                                         'info'  : dict()}\n")]),
    dict(name='R14.13 the same with the new record held by a local and the role test under `pid in`',
         rules=('R14.13',), edits=[
        (_T, _ADD_OLD,
             "                    if pid in self._pilots and \\\n"
             "                            self._pilots[pid]['role'] == ADDED:\n"
             "                        " + _RAISE_ADDED + "\n"
             "                    record = dict(role=ADDED, state=None, pilot=pilot,\n"
             "                                  info=dict())\n"
             "                    self._pilots[pid] = record\n")]),
    dict(name='R14.13 the same through dict.update with a one-item display',
         rules=('R14.13',), edits=[
        (_T, _ADD_OLD,
             "                    if self._pilots.get(pid, {}).get('role') == ADDED:\n"
             "                        " + _RAISE_ADDED + "\n"
             "                    self._pilots.update({pid: {'role': ADDED, 'state': None,\n"
             "                                               'pilot': pilot, 'info': dict()}})\n")]),
    dict(name='R14.13 remove_pilots drops the record (and the recorded state) instead of marking it',
         rules=('R14.13',), edits=[
        (_T, "                    self._pilots[pid]['role'] = REMOVED\n"
             "                    self._log.debug('removed pilot: %s', self._pilots[pid])\n",
             "                    self._log.debug('removed pilot: %s', self._pilots[pid])\n"
             "                    del self._pilots[pid]\n")]),
    dict(name='R14.13 sibling site: _update_pilot_states makes the empty record under a test of the wrong table',
         rules=('R14.13',), edits=[
        (_T, "                if pid not in self._pilots:\n                    self._pilots[pid] = {'role'  : None,\n                                         'state' : None,\n                                         'pilot' : None,\n                                         'info'  : dict()  # scheduler private info\n",
             "                if pid not in self._early:\n                    self._pilots[pid] = {'role'  : None,\n                                         'state' : None,\n                                         'pilot' : None,\n                                         'info'  : dict()  # scheduler private info\n")]),
    dict(name='R14.14 seed C14-i6: a cancel request with an empty uid list addresses every agent',
         rules=('R14.14',), edits=[
        (_A, _CANCEL_GUARD,
             "        arg  = msg['arg']\n"
             "        uids = arg.get('uids')\n\n"
             "        # a request which does not name any pilot addresses all pilots\n"
             "        if uids and self._pid not in ru.as_list(uids):\n"
             "            self._log.debug('ignore cancel %s', msg)\n"
             "            return True\n")]),
    dict(name='R14.14 the test for the addressee only logs, the return is gone',
         rules=('R14.14',), edits=[
        (_A, _CANCEL_GUARD,
             "        arg = msg['arg']\n\n"
             "        if self._pid not in arg.get('uids'):\n"
             "            self._log.debug('ignore cancel %s', msg)\n")]),
    dict(name='R14.14 polarity: the agent stops for requests that name other pilots',
         rules=('R14.14',), edits=[
        (_A, _CANCEL_GUARD,
             "        arg = msg['arg']\n\n"
             "        if self._pid in arg.get('uids'):\n"
             "            self._log.debug('ignore cancel %s', msg)\n"
             "            return True\n")]),
    dict(name='R14.14 fast path: one-element requests are taken without comparing the uid',
         rules=('R14.14',), edits=[
        (_A, _CANCEL_GUARD,
             "        arg  = msg['arg']\n"
             "        uids = arg.get('uids')\n"
             "        mine = len(uids) == 1 or self._pid in uids\n\n"
             "        if not mine:\n"
             "            self._log.debug('ignore cancel %s', msg)\n"
             "            return True\n")]),
    dict(name='R14.14 cancel moved into a helper that is also called before the addressee test',
         rules=('R14.14',), edits=[
        (_A, _CANCEL_GUARD + "\n" + _CANCEL_BODY,
             "        arg = msg['arg']\n\n"
             "        if not arg.get('uids'):\n"
             "            return self._do_cancel()\n\n"
             "        if self._pid not in arg.get('uids'):\n"
             "            self._log.debug('ignore cancel %s', msg)\n"
             "            return True\n\n"
             "        return self._do_cancel()\n\n\n"
             "    def _do_cancel(self):\n\n" + _CANCEL_BODY)]),
]

SILENT += [
    dict(name='R14.13 add_pilots looks the record up once and creates it when there is none', edits=[
        (_T, _ADD_OLD,
             "                    record = self._pilots.get(pid)\n\n"
             "                    if record is None:\n"
             "                        record = {'role': None, 'state': None,\n"
             "                                  'pilot': None, 'info': dict()}\n"
             "                        self._pilots[pid] = record\n\n"
             "                    elif record['role'] == ADDED:\n"
             "                        " + _RAISE_ADDED + "\n"
             "                    record['role']  = ADDED\n"
             "                    record['pilot'] = pilot\n")]),
    dict(name='R14.13 add_pilots with the absence test first (elif for the role)', edits=[
        (_T, _ADD_OLD,
             "                    if pid not in self._pilots:\n"
             "                        self._pilots[pid] = {'role'  : None,\n"
             "                                             'state' : None,\n"
             "                                             'pilot' : None,\n"
             "                                             'info'  : dict()}\n\n"
             "                    elif self._pilots[pid]['role'] == ADDED:\n"
             "                        " + _RAISE_ADDED + "\n"
             "                    self._pilots[pid]['role']  = ADDED\n"
             "                    self._pilots[pid]['pilot'] = pilot\n")]),
    dict(name='R14.13 add_pilots makes the missing record with setdefault and works on the result', edits=[
        (_T, _ADD_OLD,
             "                    record = self._pilots.setdefault(pid, {'role': None,\n"
             "                                 'state': None, 'pilot': None, 'info': dict()})\n\n"
             "                    if record['role'] == ADDED:\n"
             "                        " + _RAISE_ADDED + "\n"
             "                    record['role']  = ADDED\n"
             "                    record['pilot'] = pilot\n")]),
    dict(name='R14.13 absence held by a flag, early continue for the known pilot in _update_pilot_states', edits=[
        (_T, "                if pid not in self._pilots:\n                    self._pilots[pid] = {'role'  : None,\n",
             "                known = pid in self._pilots\n                if not known:\n                    self._pilots[pid] = {'role'  : None,\n")]),
    dict(name='R14.14 missing list tolerated, addressee test kept (not uids or not in)', edits=[
        (_A, _CANCEL_GUARD,
             "        arg  = msg['arg']\n"
             "        uids = arg.get('uids')\n\n"
             "        if not uids or self._pid not in ru.as_list(uids):\n"
             "            self._log.debug('ignore cancel %s', msg)\n"
             "            return True\n")]),
    dict(name='R14.14 positive form: cancel inside `if self._pid in uids`', edits=[
        (_A, _CANCEL_GUARD + "\n" + _CANCEL_BODY,
             "        uids = msg['arg'].get('uids') or []\n\n"
             "        if self._pid in uids:\n\n"
             + _CANCEL_BODY.replace("        ", "            ") + "\n"
             "        self._log.debug('ignore cancel %s', msg)\n"
             "        return True\n")]),
    dict(name='R14.14 addressee test held by a local, own id through an alias', edits=[
        (_A, _CANCEL_GUARD,
             "        arg  = msg['arg']\n"
             "        pid  = self._pid\n"
             "        mine = pid in arg.get('uids')\n\n"
             "        if not mine:\n"
             "            self._log.debug('ignore cancel %s', msg)\n"
             "            return True\n")]),
    dict(name='R14.14 addressee flag as a conjunction (list there and pilot in it)', edits=[
        (_A, _CANCEL_GUARD,
             "        arg  = msg['arg']\n"
             "        uids = arg.get('uids')\n"
             "        mine = bool(uids) and self._pid in uids\n\n"
             "        if not mine:\n"
             "            self._log.debug('ignore cancel %s', msg)\n"
             "            return True\n")]),
    dict(name='R14.14 the cancel steps in a helper without the message, called after the test', edits=[
        (_A, _CANCEL_GUARD + "\n" + _CANCEL_BODY,
             _CANCEL_GUARD + "\n"
             "        return self._do_cancel()\n\n\n"
             "    def _do_cancel(self):\n\n" + _CANCEL_BODY)]),
    dict(name='R14.14 uids searched by a loop with an equality test', edits=[
        (_A, _CANCEL_GUARD,
             "        arg = msg['arg']\n\n"
             "        for uid in arg.get('uids'):\n"
             "            if uid == self._pid:\n"
             "                break\n"
             "        else:\n"
             "            self._log.debug('ignore cancel %s', msg)\n"
             "            return True\n")]),
]
