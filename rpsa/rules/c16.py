"""C16  Client and agents exchange each forwarded message exactly once
(DESIGN 5 / C16)

R16.1 extracts the decision table of the forwarder callback nested in
`Session.crosswire_pubsub` by predicate abstraction (flow.Exploration over its
CFG; atoms `from_proxy`, `'origin' in msg`, `msg['origin'] == self._module`,
`msg.get('fwd')`; assignments are kills; any other test is unconstrained) and
compares it with the specification table.  Calls of sibling closures of the
wiring method (one predicate per wire direction, chosen once per wire) are
inlined first (`specialise`).

The callback handed to the subscriber may also be a name that the wiring method
binds once per wire to one of several nested functions (one callback per
direction): it is analysed as the dispatcher over those bindings
(`_dispatcher`).

R16.7 is a same-source agreement inside the forwarder: every comparison of the
origin tag on which the decision to publish depends is made against the very
value the forwarder stamps into untagged messages (resolved by definition
through locals, closure variables, attributes bound once in __init__ and
properties: `identity_source`).

R16.8 is the agreement over the table the proxy advertises (`Proxy._worker`):
the addr_* endpoints reported for a channel are those of the bridge object that
was created for THAT channel, each under its own key.

R16.6 is the agreement between the typed message classes of messages.py and
the callback: a key that a message class defaults is present in every message
of that class, so a callback that recognises "untagged" by the absence of
`origin` never tags such a message; decided by evaluating the callback on the
defaults of every class and on the corresponding dict message.

R16.9 is the agreement between the constructors / construction sites of the
messages that must travel (RPC request and reply) and the forwarders: `fwd`
and `origin` of a received message are rewritten on the way (origin stamped,
flag cleared), so a reply whose constructor copies them from its request is
not forwarded from the side of the handler.  The constructor is interpreted
for the request as it arrives on the publishing side and - after the two
forwarders, evaluated by value - on another side; the resulting items must
pass the local -> proxy forwarder.
"""

import ast

from ..model import (walk, dotted, call_name, kwarg, unparse, short, UNKNOWN,
                     AnalysisError, calls_in)
from ..cfg import cfg_of
from ..flow import Deps, Exploration
from .. import idioms as I
from .c14 import Interp, UNK, truth, thaw

SESS = ('session.py', 'Session')
COMP = 'utils/component.py'
TMGR = ('task_manager.py', 'TaskManager')
PMGR = ('pilot_manager.py', 'PilotManager')
CONST = 'constants.py'


# ------------------------------------------------------------------------------
# anchors inside crosswire_pubsub
#
def forwarder(prog):
    """(crosswire FuncInfo, nested callback FuncInfo, Subscriber call,
    Publisher call, publisher variable name)"""
    cw = prog.method(SESS[0], SESS[1], 'crosswire_pubsub')
    for p in ('src', 'tgt', 'from_proxy'):
        if p not in cw.params:
            raise AnalysisError('UNRECOGNISED-IDIOM %s: parameter %r missing'
                                % (cw.where, p))
    sub = pub = None
    pubvar = None
    for s in walk(cw.node):
        if isinstance(s, ast.Call) and \
                call_name(s).split('.')[-1] == 'Subscriber':
            sub = s
        if isinstance(s, ast.Assign) and isinstance(s.value, ast.Call) and \
                call_name(s.value).split('.')[-1] == 'Publisher' and \
                len(s.targets) == 1 and isinstance(s.targets[0], ast.Name):
            pub = s.value
            pubvar = s.targets[0].id
    if sub is None or pub is None:
        raise AnalysisError('UNRECOGNISED-IDIOM %s: Subscriber(...) / '
                            '<name> = Publisher(...) not found' % cw.where)
    cb = kwarg(sub, 'cb')
    if not isinstance(cb, ast.Name):
        raise AnalysisError('UNRECOGNISED-IDIOM %s: the subscriber callback '
                            'is not a function nested in crosswire_pubsub'
                            % cw.where)
    spec = getattr(cw, '_c16_spec', None)
    if spec is None or spec[0] is not cw.node:
        base = cw.nested[cb.id] if _plain_def(cw, cb.id) else \
            _dispatcher(cw, cb.id)
        if base is None:
            raise AnalysisError('UNRECOGNISED-IDIOM %s: the subscriber '
                                'callback is not a function nested in '
                                'crosswire_pubsub' % cw.where)
        fwd = specialise(prog, cw, base)
        closures = set(cw.nested) | {cb.id}
        for s in walk(cw.node):
            if isinstance(s, ast.Assign) and isinstance(s.value, ast.Name) \
                    and s.value.id in cw.nested:
                closures |= {t.id for t in s.targets
                             if isinstance(t, ast.Name)}
        closures &= _free_names(fwd.node)
        for c in calls_in(fwd.node):
            if isinstance(c.func, ast.Name) and c.func.id in closures:
                raise AnalysisError(
                    'UNRECOGNISED-IDIOM %s: the callback calls %s(), a '
                    'closure of the wiring method that could not be inlined: '
                    'what it does with the message is not decided'
                    % (base.where, c.func.id))
        spec = cw._c16_spec = (cw.node, fwd)
    return cw, spec[1], sub, pub, pubvar


def _plain_def(cw, name):
    """`name` is a function nested in the wiring method and nothing else is
    ever bound to it"""
    return name in cw.nested and not any(
        isinstance(n, ast.Name) and n.id == name and
        isinstance(n.ctx, (ast.Store, ast.Del))
        for n in walk(cw.node, nested=True))


def _dispatcher(cw, name):
    """The callback handed to the subscriber is a name that the wiring method
    binds, once per wire and under tests of its own never re-bound parameters,
    to one of several nested functions (one callback per direction, chosen at
    wiring time).  Testing the parameter once per wire or once per message is
    the same, so the callback is analysed as the function

        def <name>(<params>): <name>(<params>)

    whose only statement `specialise` turns into the if-chain over those
    tests with one inlined copy of the bound function per arm.  None if the
    bindings are not decided."""
    from ..model import FuncInfo
    defs = _closure_defs(cw, name)
    if not defs:
        return None
    sigs = set()
    for gs, f in defs:
        a = f.node.args
        if a.vararg or a.kwarg or a.kwonlyargs or a.posonlyargs or a.defaults:
            return None
        sigs.add(len(a.args))
    if len(sigs) != 1 or sigs.pop() < 2:
        return None
    first = defs[0][1].node
    params = [a.arg for a in first.args.args]
    call = ast.Call(func=ast.Name(id=name, ctx=ast.Load()),
                    args=[ast.Name(id=p, ctx=ast.Load()) for p in params],
                    keywords=[])
    node = ast.FunctionDef(
        name=name, args=ast.arguments(
            posonlyargs=[], args=[ast.arg(arg=p) for p in params],
            vararg=None, kwonlyargs=[], kw_defaults=[], kwarg=None,
            defaults=[]),
        body=[ast.Expr(value=call)], decorator_list=[], returns=None,
        type_comment=None, type_params=[])
    ast.copy_location(node, first)
    for n in ast.walk(node):
        if not hasattr(n, 'lineno') and isinstance(n, (ast.expr, ast.stmt,
                                                       ast.arg)):
            ast.copy_location(n, first)
    ast.fix_missing_locations(node)
    return FuncInfo(name, cw.qual + '.' + name, cw.module, cw.cls, node,
                    parent=cw)


# ------------------------------------------------------------------------------
# the callback as one function
#
# The callback may delegate its decision to other functions nested in the wiring
# method (one predicate per direction, selected once per wire: `accept = a if
# from_proxy else b`).  Those calls are inlined, so that the table extraction
# sees one function again: a call through a name that the wiring method binds
# under tests of its own (never re-bound) parameters becomes an if-chain over
# those tests with one inlined copy per binding.
#
def _free_names(fn):
    """names a function reads which are neither its parameters nor assigned
    in it"""
    own = {a.arg for a in fn.args.posonlyargs + fn.args.args +
           fn.args.kwonlyargs}
    own |= {n.id for n in walk(fn) if isinstance(n, ast.Name) and
            isinstance(n.ctx, (ast.Store, ast.Del))}
    return {n.id for n in walk(fn) if isinstance(n, ast.Name) and
            isinstance(n.ctx, ast.Load) and n.id not in own}


def _closure_defs(cw, name):
    """[(guards, nested FuncInfo)]: the functions nested in the wiring method
    `cw` to which `name` is bound when the callback runs, each with the branch
    edges {(test node id, label)} of cw under which that binding is made; None
    if that is not decided (bound to something else, bindings that do not
    exclude each other, tests of something that may change)"""
    from ..flow import guards
    g = cfg_of(cw)
    stores = sum(1 for n in walk(cw.node, nested=True)
                 if isinstance(n, ast.Name) and n.id == name and
                 isinstance(n.ctx, (ast.Store, ast.Del)))
    for n in walk(cw.node, nested=True):
        if isinstance(n, (ast.Nonlocal, ast.Global)) and name in n.names:
            return None

    def sole_def(nm):
        return nm in cw.nested and not any(
            isinstance(n, ast.Name) and n.id == nm and
            isinstance(n.ctx, (ast.Store, ast.Del))
            for n in walk(cw.node, nested=True)) and sum(
                1 for n in g.nodes if isinstance(n.ast, ast.FunctionDef) and
                n.ast.name == nm) == 1
    if sole_def(name):
        return [(frozenset(), cw.nested[name])]
    if name in cw.nested or name in cw.params:
        return None
    stable = {p for p in cw.params if p != 'self' and not any(
        isinstance(n, ast.Name) and n.id == p and
        isinstance(n.ctx, (ast.Store, ast.Del))
        for n in walk(cw.node, nested=True))}
    out = []
    for n in g.nodes:
        a = n.ast
        if n.kind != 'stmt' or not isinstance(a, ast.Assign) or not any(
                isinstance(t, ast.Name) and t.id == name for t in a.targets):
            continue
        if len(a.targets) != 1 or not isinstance(a.value, ast.Name) or \
                not sole_def(a.value.id):
            return None
        gs = frozenset(guards(g, n.id))
        for tid, lab in gs:
            t = g.nodes[tid].ast
            if any(not isinstance(x, (ast.Name, ast.Load)) or
                   isinstance(x, ast.Name) and x.id not in stable
                   for x in ast.walk(t)):
                return None
        out.append((gs, cw.nested[a.value.id]))
    if not out or len(out) != stores:
        return None
    for i, (g1, _) in enumerate(out):
        for g2, _ in out[i + 1:]:
            if not any((tid, 'F' if lab == 'T' else 'T') in g2
                       for tid, lab in g1):
                return None
    return [(sorted(gs), f) for gs, f in out]


def specialise(prog, cw, fwd):
    """FuncInfo of the callback with the calls of other closures of the
    wiring method inlined (the callback itself if there are none, or if they
    have a shape that cannot be inlined: the extraction then meets the call
    as a test it cannot interpret)"""
    import copy
    from .. import normalize as N
    from ..model import FuncInfo
    from ..canon import canonicalize
    g = cfg_of(cw)

    class One(N.Inliner):
        def __init__(self, target):
            N.Inliner.__init__(self, prog, {})
            self.target = target

        def callee(self, finfo, call):
            return self.target

    def inlinable(f, local):
        fn = f.node
        a = fn.args
        if a.vararg or a.kwarg or a.kwonlyargs or a.posonlyargs or \
                isinstance(fn, ast.AsyncFunctionDef):
            return False
        if any(isinstance(x, (ast.Yield, ast.YieldFrom, ast.Await, ast.Global,
                              ast.Nonlocal, ast.FunctionDef, ast.ClassDef,
                              ast.Lambda)) for x in ast.walk(fn) if x is not fn):
            return False
        if sum(1 for x in ast.walk(fn) if isinstance(x, ast.stmt)) > 80:
            return False
        # a free name of the callee must mean the same thing in the callback
        return not (_free_names(fn) & local) and fn.name not in _free_names(fn)

    def guard_test(gs):
        parts = []
        for tid, lab in gs:
            t = copy.deepcopy(g.nodes[tid].ast)
            parts.append(t if lab == 'T' else
                         ast.UnaryOp(op=ast.Not(), operand=t))
        return parts[0] if len(parts) == 1 else ast.BoolOp(op=ast.And(),
                                                           values=parts)

    node = copy.deepcopy(fwd.node)
    info = FuncInfo(fwd.name, fwd.qual, fwd.module, fwd.cls, node, parent=cw)
    count = [0]

    def the_call(s):
        if isinstance(s, ast.Expr):
            c = s.value
        elif isinstance(s, ast.Assign) and len(s.targets) == 1:
            c = s.value
        elif isinstance(s, ast.Return):
            c = s.value
        elif isinstance(s, ast.If):
            c = s.test
            if isinstance(c, ast.UnaryOp) and isinstance(c.op, ast.Not):
                c = c.operand
        else:
            c = None
        return c if isinstance(c, ast.Call) and isinstance(c.func, ast.Name) \
            else None

    def replacement(s, local):
        c = the_call(s)
        if c is None or c.func.id in local:
            return None
        defs = _closure_defs(cw, c.func.id)
        if not defs:
            return None
        arms = []
        for gs, f in defs:
            if f.node is fwd.node or not inlinable(f, local):
                return None
            tgt = FuncInfo(f.name, f.qual, f.module, None, f.node, parent=cw)
            rep = One(tgt).inline_stmt(info, copy.deepcopy(s), local)
            if rep is None:
                return None
            arms.append((gs, rep))
        if len(arms) == 1 and not arms[0][0]:
            return arms[0][1]
        # if-chain over the tests that select the binding; a wire for which no
        # binding is made calls an unbound name
        tail = [ast.Raise(exc=ast.Call(
            func=ast.Name(id='NameError', ctx=ast.Load()),
            args=[ast.Constant(value=c.func.id)], keywords=[]), cause=None)]
        if len(arms) == 2 and len(arms[0][0]) == 1 and \
                len(arms[1][0]) == 1 and \
                arms[0][0][0][0] == arms[1][0][0][0]:
            # the two arms of one test
            tail = arms.pop()[1]
        for gs, rep in reversed(arms):
            tail = [ast.copy_location(ast.If(test=guard_test(gs), body=rep,
                                             orelse=tail), s)]
        return tail

    def simple(e):
        return isinstance(e, (ast.Name, ast.Constant)) or (
            isinstance(e, ast.Attribute) and simple(e.value))

    def hoisted(s, local):
        """`if h(..) == x:` with h a closure of the wiring method and x a
        name / attribute path / constant -> (`v = h(..)`, `if v == x:`): the
        call is evaluated exactly once and first either way (reading x has no
        effect, and the closure cannot re-bind a local of the callback)"""
        if not isinstance(s, ast.If):
            return None
        t = s.test
        if isinstance(t, ast.UnaryOp) and isinstance(t.op, ast.Not):
            t = t.operand
        if not isinstance(t, ast.Compare) or len(t.ops) != 1:
            return None
        l, r = t.left, t.comparators[0]
        for c, other in ((l, r), (r, l)):
            if isinstance(c, ast.Call) and isinstance(c.func, ast.Name) and \
                    c.func.id not in local and simple(other) and \
                    _closure_defs(cw, c.func.id):
                tmp = '%s__v%d' % (c.func.id, len(temps))
                temps.append(tmp)
                asg = ast.copy_location(ast.Assign(
                    targets=[ast.Name(id=tmp, ctx=ast.Store())],
                    value=c, lineno=s.lineno), s)
                nm = ast.copy_location(ast.Name(id=tmp, ctx=ast.Load()), c)
                if c is l:
                    t.left = nm
                else:
                    t.comparators[0] = nm
                ast.fix_missing_locations(asg)
                return asg
        return None

    temps = []

    def do_block(stmts, local):
        out = []
        for s in stmts:
            if isinstance(s, (ast.FunctionDef, ast.ClassDef,
                              ast.AsyncFunctionDef)):
                out.append(s)
                continue
            for fld in ('body', 'orelse', 'finalbody'):
                b = getattr(s, fld, None)
                if isinstance(b, list) and b and isinstance(b[0], ast.stmt):
                    setattr(s, fld, do_block(b, local))
            for h in getattr(s, 'handlers', None) or []:
                h.body = do_block(h.body, local)
            pre = hoisted(s, local)
            if pre is not None:
                rep = replacement(pre, local)
                if rep is None:
                    out.append(pre)
                else:
                    count[0] += 1
                    out += rep
            rep = replacement(s, local)
            if rep is None:
                out.append(s)
            else:
                count[0] += 1
                out += rep
        return out

    for _ in range(3):                      # closures calling closures
        before = count[0]
        local = N._assigned(node) | set(info.params)
        node.body = do_block(node.body, local)
        if count[0] == before:
            break
    if not count[0]:
        return fwd
    canonicalize(ast.Module(body=[node], type_ignores=[]))
    ast.fix_missing_locations(node)
    info = FuncInfo(fwd.name, fwd.qual, fwd.module, fwd.cls, node, parent=cw)
    info.inlined = count[0]
    return info


# ------------------------------------------------------------------------------
# R16.1
#
def closure_aliases(cw, fn):
    """names the callback `fn` reads as closure variables of the wiring method
    `cw` which hold the side identity: bound exactly once in cw, to
    `self._module`, never declared nonlocal (the callback runs after the
    wiring method has returned, so the binding is made whenever it runs)"""
    out = set()
    free = _free_names(fn)
    for n in walk(cw.node, nested=True):
        if isinstance(n, (ast.Nonlocal, ast.Global)):
            free -= set(n.names)
    for nm in free:
        if nm in cw.params:
            continue
        stores = [n for n in walk(cw.node) if isinstance(n, ast.Name) and
                  n.id == nm and isinstance(n.ctx, (ast.Store, ast.Del))]
        defs = [s for s in walk(cw.node) if isinstance(s, ast.Assign) and
                len(s.targets) == 1 and isinstance(s.targets[0], ast.Name) and
                s.targets[0].id == nm]
        if len(stores) == 1 and len(defs) == 1 and \
                unparse(defs[0].value) == 'self._module':
            out.add(nm)
    return out


class Atoms:
    """classification of branch tests and statements of the forwarder"""

    def __init__(self, msg, pubvar, fn=None, cw=None, prog=None):
        self.msg = msg
        self.pubvar = pubvar
        self.fn, self.cw, self.prog = fn, cw, prog
        self._ismod = {}
        # locals of the callback (or of the wiring method, read by the
        # callback as closure variables) that cache the side identity (bound
        # once, to `self._module`, which has no writer outside __init__: R16.2)
        self.aliases = set()
        if fn is not None and cw is not None:
            self.aliases |= closure_aliases(cw, fn)
        if fn is not None:
            stores = {}
            for n in walk(fn):
                if isinstance(n, ast.Name) and \
                        isinstance(n.ctx, (ast.Store, ast.Del)):
                    stores[n.id] = stores.get(n.id, 0) + 1
            for n in walk(fn):
                if isinstance(n, ast.Assign) and len(n.targets) == 1 and \
                        isinstance(n.targets[0], ast.Name) and \
                        stores.get(n.targets[0].id) == 1 and \
                        unparse(n.value) == 'self._module':
                    self.aliases.add(n.targets[0].id)

        # locals of the callback that hold the origin tag: bound once, to
        # msg['origin'] / msg.get('origin'), and the tag is not written on any
        # path after that binding
        self.origin_locals = {}
        if fn is not None:
            self._find_origin_locals(fn)

    def _find_origin_locals(self, fn):
        stores, defs = {}, {}
        for n in walk(fn):
            if isinstance(n, ast.Name) and \
                    isinstance(n.ctx, (ast.Store, ast.Del)):
                stores[n.id] = stores.get(n.id, 0) + 1
            if isinstance(n, ast.Assign) and len(n.targets) == 1 and \
                    isinstance(n.targets[0], ast.Name):
                k, how = self._msg_key(n.value)
                v = n.value
                if k is None and isinstance(v, ast.Call) and \
                        isinstance(v.func, ast.Attribute) and \
                        v.func.attr == 'setdefault' and \
                        self._is_msg(v.func.value) and len(v.args) == 2 and \
                        isinstance(v.args[0], ast.Constant) and \
                        v.args[0].value == 'origin' and not v.keywords:
                    # the value of setdefault() is the (possibly just set) tag
                    k, how = 'origin', 'get'
                if k == 'origin':
                    defs[n.targets[0].id] = (n, how)
        cand = {nm: d for nm, d in defs.items() if stores.get(nm) == 1}
        if not cand:
            return
        import types
        g = cfg_of(types.SimpleNamespace(node=fn))
        smap = I.stmt_node_map(g)
        kills = []

        def other_key(k):
            return isinstance(k, ast.Constant) and k.value != 'origin'
        for n in walk(fn):
            t = None
            if isinstance(n, (ast.Assign, ast.AugAssign, ast.AnnAssign)):
                tg = n.targets if isinstance(n, ast.Assign) else [n.target]
                t = [x for x in tg if isinstance(x, ast.Subscript) and
                     self._is_msg(x.value) and not other_key(x.slice)]
            elif isinstance(n, ast.Delete):
                t = [x for x in n.targets if isinstance(x, ast.Subscript) and
                     self._is_msg(x.value) and not other_key(x.slice)]
            elif isinstance(n, ast.Call) and \
                    isinstance(n.func, ast.Attribute) and \
                    self._is_msg(n.func.value) and n.func.attr in I.MUTATING:
                if not (n.func.attr in ('setdefault', 'pop') and n.args and
                        other_key(n.args[0])):
                    t = [n]
            if t and id(n) in smap:
                kills.append(smap[id(n)].id)
        for nm, (d, how) in cand.items():
            if id(d) not in smap:
                continue
            after = g.reachable(smap[id(d)].id)
            if not any(k in after for k in kills
                       if k != smap[id(d)].id):
                self.origin_locals[nm] = how

    def _is_msg(self, e):
        return isinstance(e, ast.Name) and e.id == self.msg

    def is_module(self, e):
        """e holds the side identity: `self._module`, or something bound
        once to it (local, closure variable of the wiring method, attribute
        of the session bound in __init__, property): identity_source"""
        if unparse(e) == 'self._module' or (
                isinstance(e, ast.Name) and e.id in self.aliases):
            return True
        if self.prog is None or self.cw is None or self.fn is None or \
                not isinstance(e, (ast.Name, ast.Attribute)):
            return False
        k = unparse(e)
        if k not in self._ismod:
            src = identity_source(self.prog, self.cw, self.fn, e)
            self._ismod[k] = src is not None and _same_source(
                self.cw.cls, src, ('self', '_module'))
        return self._ismod[k]

    def _msg_key(self, e):
        """'origin' for msg['origin'] / msg.get('origin'[, None|False])"""
        if isinstance(e, ast.Name) and \
                e.id in getattr(self, 'origin_locals', ()):
            return 'origin', self.origin_locals[e.id]
        if isinstance(e, ast.Subscript) and self._is_msg(e.value) and \
                isinstance(e.slice, ast.Constant):
            return e.slice.value, 'sub'
        if isinstance(e, ast.Call) and isinstance(e.func, ast.Attribute) and \
                e.func.attr == 'get' and self._is_msg(e.func.value) and \
                e.args and isinstance(e.args[0], ast.Constant) and \
                not e.keywords:
            if len(e.args) == 1 or (isinstance(e.args[1], ast.Constant) and
                                    not e.args[1].value):
                return e.args[0].value, 'get'
        return None, None

    def classify(self, t):
        """(atom, positive, needs_origin_key) | None"""
        if isinstance(t, ast.Name) and t.id == 'from_proxy':
            return ('P', True, False)
        k, how = self._msg_key(t)
        if k == 'fwd':
            return ('F', True, False)
        if k == 'origin' and how == 'get':
            # the tag tested by value: absent (None) is false, the identity
            # of a side is true
            return ('O', True, False)
        if isinstance(t, ast.Compare) and len(t.ops) == 1:
            op = t.ops[0]
            l, r = t.left, t.comparators[0]
            if isinstance(op, (ast.Is, ast.IsNot, ast.Eq, ast.NotEq)) and \
                    isinstance(r, ast.Constant) and r.value is None:
                k, how = self._msg_key(l)
                if k == 'origin' and how == 'get' and (
                        len(l.args) == 1 or l.args[1].value is None):
                    return ('O', isinstance(op, (ast.IsNot, ast.NotEq)),
                            False)
            if isinstance(op, (ast.In, ast.NotIn)) and self._is_msg(r) and \
                    isinstance(l, ast.Constant) and l.value == 'origin':
                return ('O', isinstance(op, ast.In), False)
            if isinstance(op, (ast.Eq, ast.NotEq)):
                for a, b in ((l, r), (r, l)):
                    k, how = self._msg_key(a)
                    if k == 'origin' and self.is_module(b):
                        return ('M', isinstance(op, ast.Eq), how == 'sub')
            if isinstance(op, (ast.Is, ast.Eq)) and \
                    isinstance(r, ast.Constant) and r.value is True:
                k, how = self._msg_key(l)
                if k == 'fwd':
                    return ('F', True, False)
        return None

    @staticmethod
    def log_switch(t):
        """name of a recognised log switch (a module level flag such as
        LOG_ENABLED, a logger level query): its value is not under the
        control of the protocol, so the table must hold for both values"""
        import re
        if isinstance(t, ast.Name) and re.search(r'LOG|DEBUG|VERBOSE|TRACE',
                                                 t.id) and t.id.isupper():
            return t.id
        if isinstance(t, ast.Call) and isinstance(t.func, ast.Attribute) and \
                t.func.attr in ('isEnabledFor', 'is_enabled_for') and \
                'log' in unparse(t.func.value).lower():
            return unparse(t)
        return None

    def mentions_msg(self, t):
        return any(self._is_msg(n) for n in walk(t)) or any(
            isinstance(n, ast.Name) and n.id == 'from_proxy' for n in walk(t))


def extract_table(prog, rep, cw, fwd, pubvar):
    """{(P, O, M, F): set((switches, outcome))}; `switches` is the assignment
    of the log switches tested on the path ((name, bool), ...), an outcome is
    a tuple of effects: ('put', O, M, F, topic_ok, msg_ok) | ('error', text) |
    ('raise',)"""
    params = fwd.params
    if len(params) < 2:
        raise AnalysisError('UNRECOGNISED-IDIOM %s: callback is not '
                            '(topic, msg)' % fwd.where)
    msg = params[1]
    at = Atoms(msg, pubvar, fwd.node, cw, prog)
    g = cfg_of(fwd)
    rep.stat('cfg_nodes', len(g.nodes))
    unknown_tests = set()

    def transfer(node, edge, st):
        if edge.label == 'exc':
            return st
        P, O, M, F, eff, sw = st
        a = node.ast
        if node.kind == 'test' and edge.label in ('T', 'F'):
            c = at.classify(a)
            if c is None:
                name = at.log_switch(a)
                if name is not None:
                    # universally quantified, but consistent along a path
                    val = edge.label == 'T'
                    cur = dict(sw)
                    if name in cur:
                        return st if cur[name] == val else None
                    cur[name] = val
                    return (P, O, M, F, eff, tuple(sorted(cur.items())))
                unknown_tests.add(short(a, 60))
                return st
            atom, pos, needs_key = c
            want = (edge.label == 'T') == pos
            if atom == 'M':
                if O is False:
                    if needs_key:
                        if edge.label == 'T':       # one continuation only
                            return (P, O, M, F, eff + (
                                ('error', "KeyError: msg['origin'] read on "
                                 "an untagged message"),), sw)
                        return None
                    # msg.get('origin') on an untagged message: None != module
                    return st if want is False else None
                cur = M
            else:
                cur = {'P': P, 'O': O, 'F': F}[atom]
            if cur is None:
                if atom == 'M':
                    M = want
                elif atom == 'F':
                    F = want
                elif atom == 'O':
                    O = want
                return (P, O, M, F, eff, sw)
            return st if cur == want else None
        if node.kind != 'stmt' or a is None:
            return st
        if isinstance(a, (ast.FunctionDef, ast.ClassDef)):
            return st
        # kills
        for n in walk(a):
            if isinstance(n, (ast.Assign, ast.AugAssign, ast.AnnAssign)):
                tg = n.targets if isinstance(n, ast.Assign) else [n.target]
                for t in tg:
                    if at._is_msg(t):
                        raise AnalysisError(
                            'UNRECOGNISED-IDIOM %s: the message variable is '
                            're-bound: %s' % (fwd.where, short(a)))
                    if isinstance(t, ast.Subscript) and at._is_msg(t.value):
                        k = t.slice.value if isinstance(t.slice,
                                                        ast.Constant) else None
                        v = getattr(n, 'value', None)
                        if k == 'origin':
                            O = True
                            M = True if (v is not None and
                                         at.is_module(v)) else None
                        elif k == 'fwd':
                            F = v.value if isinstance(v, ast.Constant) and \
                                isinstance(v.value, bool) else None
                        elif k is None:
                            raise AnalysisError(
                                'UNRECOGNISED-IDIOM %s: store into the '
                                'message with a computed key: %s'
                                % (fwd.where, short(a)))
            elif isinstance(n, ast.Delete):
                for t in n.targets:
                    if isinstance(t, ast.Subscript) and at._is_msg(t.value):
                        k = t.slice.value if isinstance(t.slice,
                                                        ast.Constant) else None
                        if k == 'origin':
                            O, M = False, None
                        elif k == 'fwd':
                            F = False
                        elif k is None:
                            raise AnalysisError(
                                'UNRECOGNISED-IDIOM %s: %s' % (fwd.where,
                                                               short(a)))
            elif isinstance(n, ast.Call) and \
                    isinstance(n.func, ast.Attribute):
                recv, meth = n.func.value, n.func.attr
                if at._is_msg(recv) and meth in I.MUTATING:
                    k = n.args[0].value if n.args and isinstance(
                        n.args[0], ast.Constant) else None
                    if meth == 'setdefault' and k == 'origin' and \
                            len(n.args) == 2:
                        if O is False:
                            O = True
                            M = True if at.is_module(n.args[1]) else None
                        elif O is None:
                            M = None
                    elif meth == 'setdefault' and k not in ('origin', 'fwd',
                                                            None):
                        pass
                    elif meth == 'pop' and k == 'fwd':
                        F = False
                    else:
                        raise AnalysisError(
                            'UNRECOGNISED-IDIOM %s: the message is mutated '
                            'in a way the table extraction does not model: '
                            '%s' % (fwd.where, short(a)))
                elif meth in ('put', 'publish', 'send'):
                    if isinstance(recv, ast.Name) and recv.id == pubvar \
                            and meth == 'put':
                        topic_ok = len(n.args) == 2 and \
                            unparse(n.args[0]) == 'tgt'
                        msg_ok = len(n.args) == 2 and at._is_msg(n.args[1])
                        eff = eff + (('put', O, M, F, topic_ok, msg_ok),)
                    elif 'log' not in unparse(recv).lower():
                        raise AnalysisError(
                            'UNRECOGNISED-IDIOM %s: publication through '
                            'something else than the crosswire publisher: %s'
                            % (fwd.where, short(a)))
        return (P, O, M, F, eff, sw)

    table = {}
    paths = 0
    for P in (True, False):
        for O in (True, False):
            for F in (True, False):
                for M in ((True, False) if O else (None,)):
                    init = (P, O, M, F, (), ())
                    ex = Exploration(g, g.entry.id, init, transfer)
                    paths += ex.states
                    outs = set()
                    for t in ex.terminals:
                        eff = t.state[4]
                        if t.node == g.raise_.id:
                            eff = eff + (('raise',),)
                        outs.add((t.state[5], eff))
                    table[(P, O, M, F)] = outs
    rep.stat('paths_enumerated', paths)
    return table, sorted(unknown_tests)


def _consistent(table, fwd, unknown):
    """two paths that agree on every log switch they both test must have the
    same outcome; otherwise the outcome depends on a test that is neither a
    protocol atom nor a recognised log switch"""
    for combo, outs in table.items():
        outs_l = sorted(outs, key=repr)
        for i, (sw1, e1) in enumerate(outs_l):
            for sw2, e2 in outs_l[i + 1:]:
                d1, d2 = dict(sw1), dict(sw2)
                if e1 != e2 and all(d1[k] == d2[k] for k in d1 if k in d2):
                    raise AnalysisError(
                        'UNRECOGNISED-IDIOM %s: for [%s] the outcome depends '
                        'on tests the extraction cannot interpret (%s)'
                        % (fwd.where, describe(*combo),
                           '; '.join(unknown) or 'none seen'))


def _log_switches(fwd):
    g = cfg_of(fwd)
    return sorted({Atoms.log_switch(n.ast) for n in g.nodes
                   if n.kind == 'test' and Atoms.log_switch(n.ast) and
                   isinstance(n.ast, ast.Name)})


def outcomes_by_value(prog, fwd, pubvar, P, m):
    """set((switch assignment, effects)) of the callback for the concrete
    message `m` (this side is 'ME') arriving at a forwarder wired with
    from_proxy=P, once per value of every recognised log switch; None if some
    outcome is not decided"""
    import itertools
    params = fwd.params
    if len(params) < 2:
        return None
    msg = params[1]
    switches = _log_switches(fwd)
    if len(switches) > 3:
        return None
    sess = prog.cls(*SESS)
    outs = set()
    for vals in itertools.product((True, False), repeat=len(switches)):
        puts = []

        def observe(fn, node, env, puts=puts):
            if fn is not fwd or node.kind != 'stmt' or node.ast is None:
                return
            for c in calls_in(node.ast):
                if isinstance(c.func, ast.Attribute) and \
                        c.func.attr == 'put' and \
                        unparse(c.func.value) == pubvar:
                    v = ip.ev(fn, c.args[1], env) \
                        if len(c.args) == 2 else UNK
                    puts.append((env.get('@p', 0), c, v))
                    env['@p'] = env.get('@p', 0) + 1
        inputs = dict(zip(switches, vals))
        inputs.update({'from_proxy': P, 'self._module': 'ME'})
        inputs.update(_identity_inputs(prog, fwd))
        ip = Interp(prog, sess, inputs=inputs, observe=observe)
        exits = ip.run(fwd, {msg: dict(m), params[0]: 'topic'})
        # every feasible path must agree on the sequence of puts: group by
        # the '@p' counter at the exits
        counts = {dict(fe).get('@p', 0) for fe in exits}
        if len(counts) != 1 or not exits:
            return None
        n = counts.pop()
        seq = {}
        for i, c, v in puts:
            seq.setdefault(i, set()).add(
                (id(c), repr(v) if isinstance(v, dict) else None))
        if any(len(x) != 1 for x in seq.values()) or len(seq) != n:
            return None
        eff = []
        for i in range(n):
            c, v = [(c, v) for j, c, v in puts if j == i][0]
            if not isinstance(v, dict) or any(x is UNK for x in v.values()):
                return None
            eff.append(('put', 'origin' in v,
                        v.get('origin') == 'ME' if 'origin' in v else None,
                        bool(v.get('fwd')),
                        len(c.args) == 2 and unparse(c.args[0]) == 'tgt',
                        True))
        outs.add((tuple(zip(switches, vals)), tuple(eff)))
    return outs


def _identity_inputs(prog, fwd):
    """{key: 'ME'} for the closure variables of the wiring method and the
    attributes of the session, read by the callback, that are bound once to
    the side identity"""
    out = getattr(fwd, '_c16_idin', None)
    if out is None:
        out = fwd._c16_idin = {}
        if fwd.parent is not None:
            out.update({nm: 'ME' for nm in
                        closure_aliases(fwd.parent, fwd.node)})
            seen = set()
            for n in walk(fwd.node):
                if isinstance(n, ast.Attribute) and \
                        isinstance(n.value, ast.Name) and \
                        n.value.id == 'self' and n.attr != '_module' and \
                        n.attr not in seen:
                    seen.add(n.attr)
                    src = identity_source(prog, fwd.parent, fwd.node, n)
                    if src is not None and _same_source(
                            fwd.parent.cls, src, ('self', '_module')):
                        out['self.%s' % n.attr] = 'ME'
    return out


def table_by_value(prog, rep, cw, fwd, pubvar):
    """the same table from a value interpretation of the callback on the 12
    concrete messages (this side 'ME', another side 'OTHER'), once per value
    of every recognised log switch; None if some outcome is not decided"""
    table = {}
    for P in (True, False):
        for O in (True, False):
            for F in (True, False):
                for M in ((True, False) if O else (None,)):
                    m = {}
                    if O:
                        m['origin'] = 'ME' if M else 'OTHER'
                    if F:
                        m['fwd'] = True
                    outs = outcomes_by_value(prog, fwd, pubvar, P, m)
                    if outs is None:
                        return None
                    table[(P, O, M, F)] = outs
    rep.stat('value_runs', 12 * (2 ** len(_log_switches(fwd))))
    return table


def describe(P, O, M, F):
    origin = 'no origin tag' if not O else ('origin = this side' if M else
                                             'origin = another side')
    return '%s, %s, fwd %s' % ('proxy -> local forwarder' if P else
                               'local -> proxy forwarder', origin,
                               'set' if F else 'not set')


def judge(eff, P, publish):
    """what is wrong with the effects of one path of the callback for a
    message that must (not) be published by a forwarder with from_proxy=P;
    None if nothing"""
    puts = [e for e in eff if e[0] == 'put']
    errs = [e for e in eff if e[0] in ('error', 'raise')]
    if errs:
        return 'the callback raises (%s)' % errs[0][-1] \
            if errs[0][0] == 'error' else 'the callback raises'
    if publish and not puts:
        return 'the message is dropped but must be forwarded'
    if not publish and puts:
        return 'the message is forwarded but must be dropped'
    if len(puts) > 1:
        return 'the message is published %d times' % len(puts)
    if puts:
        _, o, m, f, topic_ok, msg_ok = puts[0]
        if not topic_ok or not msg_ok:
            return 'it is not the received message on the target ' \
                   'topic that is published'
        if o is not True:
            return 'the message is forwarded without an origin tag'
        if P and m is not False or not P and m is not True:
            return 'the message is forwarded with the wrong origin tag'
    return None


def r16_1(prog, rep, rid='R16.1'):
    rep.rule(rid, 'decision table of the crosswire forwarder = specification: '
             'untagged messages are tagged with this side; from the proxy: '
             'publish iff origin is another side; to the proxy: publish iff '
             'fwd is set and origin is this side; one put of the tagged '
             'message on the target topic', minimum=12)
    cw, fwd, sub, pub, pubvar = forwarder(prog)
    rep.saw(cw)
    rep.saw(fwd)
    try:
        table, unknown = extract_table(prog, rep, cw, fwd, pubvar)
        _consistent(table, fwd, unknown)
    except AnalysisError as e:
        # the predicate abstraction does not understand the shape (cached
        # locals, verdict variables, helpers): evaluate the callback on
        # concrete messages instead; if that is not conclusive either, the
        # shape stays unrecognised
        table = table_by_value(prog, rep, cw, fwd, pubvar)
        if table is None:
            raise e
        unknown = []
        rep.info(rid, fwd, 'decision table extracted by value '
                 'interpretation (predicate abstraction: %s)' % str(e)[:120])
    for combo in sorted(table, key=lambda c: tuple(str(x) for x in c)):
        P, O, M, F = combo
        outs = table[combo]
        own = (not O) or bool(M)
        publish = (not own) if P else (F and own)
        what = describe(P, O, M, F)
        key = 'P=%d O=%d M=%s F=%d' % (P, O, {True: '1', False: '0',
                                               None: '-'}[M], F)
        outs_l = sorted(outs, key=repr)

        problem, when = None, ''
        for sw, eff in outs_l:
            pr = judge(eff, P, publish)
            if pr is not None and problem is None:
                problem = pr
                if sw:
                    when = ' when %s' % ' and '.join(
                        '%s is %s' % (k, 'true' if v else 'false')
                        for k, v in sw)
        if P:
            cons = 'a message of this side comes back from the proxy and is ' \
                   'delivered a second time to the side it came from' \
                if own else 'a forwarded message of another side is never ' \
                'delivered to the subscribers of this side'
        else:
            if publish:
                cons = 'a message published with the forward flag never ' \
                       'reaches the other sides (or reaches them untagged ' \
                       'and is discarded there as "own")'
            elif not own:
                cons = 'a message received from another side is sent back ' \
                       'to the proxy: every other side gets it again'
            else:
                cons = 'a message without the forward flag leaves the side ' \
                       'where it was published'
        rep.check(problem is None, rid, fwd, '[%s] -> %s' % (
            what, 'publish once' if publish else 'drop'), construct=key,
            message='%s: for a message with [%s]%s %s; %s'
            % (fwd.qual, what, when, problem, cons), loc=fwd.loc(),
            history='one message with [%s] arrives at the forwarder%s: %s'
            % (what, when, cons))
        good_puts = [e for sw, eff in outs_l for e in eff if e[0] == 'put']
        if not P and problem is None and \
                any(e[3] is not False for e in good_puts):
            rep.info(rid, fwd, 'the forward flag is not cleared before the '
                     'message is put on the proxy channel for [%s] '
                     '(defence in depth only: the origin test already stops '
                     're-forwarding)' % what, fwd.loc())


# ------------------------------------------------------------------------------
# R16.2
#
def _single_def(f, name):
    out = [s.value for s in walk(f.node) if isinstance(s, ast.Assign) and
           any(isinstance(t, ast.Name) and t.id == name for t in s.targets)]
    return out[0] if len(out) == 1 else None


def r16_2(prog, rep, rid='R16.2'):
    rep.rule(rid, 'crosswire_pubsub subscribes on src and publishes on tgt; '
             '_crosswire_proxy wires control and state pubsub to their PROXY_ '
             'twins and back, from_proxy true exactly on the PROXY_ source; '
             'the side identity is fixed at construction', minimum=9)
    cw, fwd, sub, pub, pubvar = forwarder(prog)
    d = Deps(cw.node, nested=False)

    def plumbing(call, role, param, addr):
        ch = kwarg(call, 'channel', 0)
        ok = ch is not None and unparse(ch) == param
        tp = kwarg(call, 'topic')
        if tp is not None and unparse(tp) != param:
            ok = False
        url = kwarg(call, 'url')
        uok = False
        if url is not None:
            e = url
            if isinstance(e, ast.Name):
                e = _single_def(cw, e.id) or e
            consts = [n.value for n in walk(e) if isinstance(n, ast.Constant)
                      and isinstance(n.value, str)]
            uok = param in d.expr_depends(url) and \
                any(addr in c for c in consts) and \
                not any(other in c for c in consts
                        for other in ('addr_sub', 'addr_pub') if other != addr)
        rep.check(ok and uok, rid, cw, 'the %s is bound to channel %s and its '
                  '%s address' % (role, param, addr), construct=role,
                  message='%s: the %s is not created on channel/topic `%s` '
                  'with the `%s` address of that bridge: the forwarder '
                  'listens on or publishes to the wrong endpoint'
                  % (cw.qual, role, param, addr), loc=cw.loc(call),
                  history='any forwarded message: it is taken from / put on '
                  'a channel other than the one the wiring names')
    plumbing(sub, 'subscriber', 'src', 'addr_sub')
    plumbing(pub, 'publisher', 'tgt', 'addr_pub')

    sess = prog.cls(*SESS)
    writers = []
    for mname, f in sess.methods.items():
        for kind, target, stmt in I.stores(f.node, nested=True):
            if unparse(target) == 'self._module':
                writers.append((f, stmt))
    rep.check(bool(writers) and all(f.name == '__init__' for f, _ in writers),
              rid, sess, 'self._module is assigned in Session.__init__ only',
              construct='self._module',
              message='Session._module (the side identity compared with the '
              'origin tag) is written outside __init__ (%s): messages tagged '
              'before the change are no longer recognised as own'
              % ', '.join(sorted({f.qual for f, _ in writers})),
              loc=writers[0][0].loc(writers[0][1]) if writers else None,
              history='a message of this side returns from the proxy after '
              'the identity changed and is published a second time')

    xp = prog.method(SESS[0], SESS[1], '_crosswire_proxy')
    rep.saw(xp)
    cwp = [p for p in cw.params if p != 'self']
    # the wiring calls by value: the method is interpreted (loops over
    # constant tables are unrolled), every call of crosswire_pubsub is
    # recorded with the values of its arguments
    cm = prog.module(CONST)
    name_of = {}
    for nm in cm.assigns:
        v = prog.fold(cm, ast.Name(id=nm, ctx=ast.Load()))
        if isinstance(v, str) and nm.isupper():
            name_of.setdefault(v, nm)
    seen = {}

    def observe(fn, node, env):
        if fn is not xp or node.kind != 'stmt' or node.ast is None:
            return
        for c in calls_in(node.ast):
            if call_name(c) != 'self.crosswire_pubsub':
                continue
            vals = {}
            for i, pn in enumerate(cwp):
                e = kwarg(c, pn, i)
                vals[pn] = ip.ev(fn, e, env) if e is not None else UNK
            seen[(id(c), repr(vals))] = (c, vals)

    ip = Interp(prog, sess, observe=observe)
    ip.run(xp, {})
    rows = []
    for c, vals in seen.values():
        if any(vals.get(pn) is UNK for pn in ('src', 'tgt', 'from_proxy')) \
                or vals['src'] not in name_of or vals['tgt'] not in name_of \
                or not isinstance(vals['from_proxy'], bool):
            raise AnalysisError('UNRECOGNISED-IDIOM %s: arguments of %s are '
                                'not constants of constants.py / a boolean'
                                % (xp.where, short(c)))
        rows.append((c, name_of[vals['src']], name_of[vals['tgt']],
                     vals['from_proxy']))
    rows.sort(key=lambda r: (r[1], r[2]))
    if len(rows) < 4:
        raise AnalysisError('R16.2: fewer than 4 crosswire_pubsub calls in %s'
                            % xp.where)
    pairs = set()
    for c, s, t, fp in rows:
        sp, tpx = s.startswith('PROXY_'), t.startswith('PROXY_')
        twin = (sp != tpx) and (s[6:] == t if sp else t[6:] == s)
        rep.check(twin and fp is (True if sp else False), rid, xp,
                  '%s -> %s with from_proxy=%s' % (s, t, fp),
                  construct='wire %s -> %s' % (s, t),
                  message='%s: %s is wired to %s with from_proxy=%s: a local '
                  'channel must be wired to its PROXY_ twin and back, with '
                  'from_proxy true exactly when the source is the PROXY_ '
                  'channel (the forwarder applies the proxy->local rule to '
                  'local traffic or vice versa)' % (xp.qual, s, t, fp),
                  loc=xp.loc(c),
                  history='a local message without forward flag on %s is '
                  'treated as coming from the proxy and published on %s'
                  % (s, t) if not sp else 'messages arriving on %s are '
                  'filtered with the local->proxy rule and never delivered'
                  % s)
        if twin:
            pairs.add((s, t))
    local = sorted({s for s, t in pairs if not s.startswith('PROXY_')} |
                   {t for s, t in pairs if not t.startswith('PROXY_')})
    need = ['CONTROL_PUBSUB', 'STATE_PUBSUB']
    for ch in sorted(set(local) | set(need)):
        both = (ch, 'PROXY_' + ch) in pairs and ('PROXY_' + ch, ch) in pairs
        rep.check(both, rid, xp, '%s is wired to the proxy in both directions'
                  % ch, construct=ch,
                  message='%s: %s is not wired to PROXY_%s in both '
                  'directions: forwarded %s messages leave this side but '
                  'none arrive (or the reverse)'
                  % (xp.qual, ch, ch, ch.split('_')[0].lower()),
                  loc=xp.loc(),
                  history='client publishes cancel_tasks with fwd=True: it '
                  'never reaches the agent' if 'CONTROL' in ch else
                  'agent publishes a task state update: the client never '
                  'sees it')


# ------------------------------------------------------------------------------
# R16.3
#
def _param_default(f, name):
    a = f.node.args
    pos = a.posonlyargs + a.args
    for p, dv in zip(reversed(pos), reversed(a.defaults)):
        if p.arg == name:
            return dv
    for p, dv in zip(a.kwonlyargs, a.kw_defaults):
        if p.arg == name:
            return dv
    return None


def _reassigned(f, name):
    for n in walk(f.node):
        if isinstance(n, ast.Name) and n.id == name and \
                isinstance(n.ctx, (ast.Store, ast.Del)):
            return True
    return False


def _published(prog, rep, f, cls, channel, cmd, env0):
    """values of the 'fwd' item of every {'cmd': cmd} message that f publishes
    on `channel` when started with env0 ('<missing>' if the key is absent);
    UNK if a message cannot be evaluated"""
    out = []

    def observe(fn, node, env):
        if fn is not f or node.kind != 'stmt' or node.ast is None:
            return
        for c in calls_in(node.ast):
            if I.is_publish(c, prog, f, channel) and len(c.args) >= 2:
                v = ip.ev(fn, c.args[1], env)
                if not isinstance(v, dict):
                    out.append((c, UNK))
                elif v.get('cmd') == cmd:
                    out.append((c, v.get('fwd', '<missing>')))

    ip = Interp(prog, cls, observe=observe)
    ip.run(f, env0)
    rep.stat('interp_states', ip.states)
    return out


def r16_3(prog, rep, rid='R16.3', tier='quick'):
    rep.rule(rid, 'state updates carry the fwd flag of advance(): default true '
             'for AgentComponent, false for ClientComponent, passed through '
             'unchanged; cancel_tasks / cancel_pilots requests are published '
             'with fwd=True; typed messages default to fwd false, RPC '
             'requests / replies are constructed with fwd true', minimum=11)
    base = prog.cls(COMP, 'BaseComponent')
    badv = prog.find_method(base, 'advance')
    if badv is None or 'fwd' not in badv.params:
        raise AnalysisError('anchor BaseComponent.advance(fwd=) not found')
    rep.saw(badv)
    state_ch = prog.const(CONST, 'STATE_PUBSUB')
    # the update message carries the caller's flag: interpret advance() for
    # both values of fwd and look at the message that is published
    got = {}
    site = None
    for v in (True, False):
        pubs = _published(prog, rep, badv, base, state_ch, 'update',
                          {'fwd': v})
        if pubs and any(x is UNK for _, x in pubs) and 'state' in badv.params:
            # the flag of the message may depend on the target state: decide
            # it per state (none given, a state that is not final, each final
            # state)
            def const(txt):
                return prog.fold(badv.module, ast.parse(txt, mode='eval').body,
                                 base)
            final, other = const('rps.FINAL'), const('rps.NEW')
            if isinstance(final, (list, tuple)) and isinstance(other, str):
                pubs = []
                for st in [None, other] + list(final):
                    pubs += _published(prog, rep, badv, base, state_ch,
                                       'update', {'fwd': v, 'state': st})
        if not pubs or any(x is UNK for _, x in pubs):
            raise AnalysisError('UNRECOGNISED-IDIOM %s: publication of the '
                                "{'cmd': 'update'} message not found / not "
                                'evaluable' % badv.where)
        got[v] = sorted({x for _, x in pubs}, key=repr)
        site = pubs[0][0]
    okb = got[True] == [True] and got[False] == [False]
    lost = got[True] != [True]
    rep.check(okb, rid, badv, "the update message carries 'fwd': fwd",
              construct='update:fwd',
              message="BaseComponent.advance publishes the state update with "
              "'fwd': %s for fwd=True and %s for fwd=False instead of the "
              "caller's fwd argument: %s"
              % (got[True], got[False],
                 'agent-side state updates never reach the client' if lost
                 else 'updates that must stay local are sent to every side'),
              loc=badv.loc(site),
              history='agent advances a task to DONE: the client task manager '
              'never sees the update' if lost else
              'client-side advance with fwd=False is forwarded to all pilots')
    fpos = [p for p in badv.params if p != 'self'].index('fwd')
    for cname, want in (('AgentComponent', True), ('ClientComponent', False)):
        k = prog.cls(COMP, cname)
        f = k.methods.get('advance')
        if f is None:
            # inherits the base implementation and its default
            f = badv
        rep.saw(f)
        dv = _param_default(f, 'fwd')
        dval = prog.fold(f.module, dv, k) if dv is not None else UNKNOWN
        rep.check(dval is want, rid, f, '%s.advance: fwd defaults to %s'
                  % (cname, want), construct='%s.advance(fwd=)' % cname,
                  message='%s.advance has fwd=%s as default, the protocol '
                  'needs %s: %s' % (cname, short(dv, 20) if dv is not None
                                    else '<none>', want,
                                    'state updates of the pilot side stay on '
                                    'the pilot' if want else 'every client '
                                    'side update is broadcast to all pilots'),
                  loc=f.loc(),
                  history='agent component advances a task without naming '
                  'fwd: the client never learns the new state' if want else
                  'tmgr advances a task without naming fwd: all pilots '
                  'receive the client-local update')
        if f is badv:
            continue
        # pass-through by value
        passed = {}
        csite = None
        for v in (True, False):
            seen = []

            def observe(fn, node, env, seen=seen, f=f):
                if fn is not f or node.kind != 'stmt' or node.ast is None:
                    return
                for c in calls_in(node.ast):
                    cn = call_name(c)
                    if cn == 'super().advance' or \
                            cn.endswith('BaseComponent.advance'):
                        off = 1 if cn.endswith('BaseComponent.advance') else 0
                        a = kwarg(c, 'fwd', fpos + off)
                        seen.append((c, ip.ev(fn, a, env) if a is not None
                                     else '<base default>'))
            ip = Interp(prog, k, observe=observe)
            ip.run(f, {'fwd': v})
            if not seen:
                raise AnalysisError('UNRECOGNISED-IDIOM %s: no super().advance '
                                    'call' % f.where)
            if any(x is UNK for _, x in seen):
                raise AnalysisError('UNRECOGNISED-IDIOM %s: fwd argument of '
                                    'the base call is not evaluable'
                                    % f.where)
            passed[v] = sorted({x for _, x in seen}, key=repr)
            csite = seen[0][0]
        rep.check(passed[True] == [True] and passed[False] == [False], rid, f,
                  '%s.advance passes fwd on unchanged' % cname,
                  construct='%s.advance:pass' % cname,
                  message='%s.advance calls the base advance with fwd=%s for '
                  'fwd=True and %s for fwd=False: the flag chosen by the '
                  'caller (or the default) is lost'
                  % (cname, passed[True], passed[False]), loc=f.loc(csite),
                  history='agent component advances a task: the update '
                  'is published with the wrong forward flag')
    ctrl = prog.const(CONST, 'CONTROL_PUBSUB')
    for (rel, cn), mname in ((TMGR, 'cancel_tasks'), (PMGR, 'cancel_pilots')):
        f = prog.method(rel, cn, mname)
        rep.saw(f)
        pubs = _published(prog, rep, f, prog.cls(rel, cn), ctrl, mname, {})
        if not pubs or any(x is UNK for _, x in pubs):
            raise AnalysisError('UNRECOGNISED-IDIOM %s: the %s message is not '
                                'published on the control pubsub (or cannot '
                                'be evaluated)' % (f.where, mname))
        vals = sorted({x for _, x in pubs}, key=repr)
        rep.check(vals == [True], rid, f, "the %s request is published with "
                  "'fwd': True" % mname, construct='%s:fwd' % mname,
                  message="%s.%s publishes the request with fwd=%s: it stays "
                  "on the client side and the pilots' components never see "
                  "it" % (cn, mname, vals), loc=f.loc(pubs[0][0]),
                  history='application calls %s(): %s' % (
                      mname, 'tasks already on a pilot keep running'
                      if mname == 'cancel_tasks' else
                      'the agent never receives the request and the call '
                      'blocks in wait_pilots'))
    # typed messages: the forwarder reads the flag by value, so the class
    # that introduces the `fwd` item must default it to "not forwarded" (a
    # message that does not say otherwise stays local, like a dict without the
    # key); RPC requests / replies are constructed without naming the flag
    # and must cross the proxy to reach the side of their addressee
    classes = message_classes(prog)
    for k in classes:
        sv = k.consts.get('_schema')
        declared = isinstance(sv, ast.Dict) and any(
            isinstance(x, ast.Constant) and x.value == 'fwd' for x in sv.keys)
        declared = declared or (
            isinstance(sv, ast.Call) and dotted(sv.func) == 'dict' and
            any(kw.arg == 'fwd' for kw in sv.keywords))
        if not declared:
            continue
        d = class_defaults(prog, k)
        val, owner, node = d.get('fwd', (None, k, None))
        rep.check(not val, rid, k, "%s (declares the 'fwd' item of the typed "
                  "messages) defaults it to a false value" % k.name,
                  construct='%s:fwd default' % k.name,
                  message="messages.py: %s declares the schema item 'fwd' "
                  "and defaults it to %r: every typed message whose class "
                  "does not set its own default carries the forward flag "
                  "although its publisher did not ask for it, and leaves the "
                  "side where it was published" % (k.name, val),
                  loc='src/radical/pilot/%s:%d' % (
                      k.module.rel, getattr(node, 'lineno', k.node.lineno)),
                  history='a component publishes a typed message without '
                  'naming fwd: the local->proxy forwarder puts it on the '
                  'proxy, every other side receives it')
    for cname in ('RPCRequestMessage', 'RPCResultMessage'):
        k = prog.cls(MSGS, cname)
        dflt = class_defaults(prog, k).get('fwd', (None, k, None))[0]
        sites = 0
        for m in prog.modules.values():
            if cname not in m.src:          # (not even imported under an alias)
                continue
            for c in calls_in(m.tree, nested=True):
                r = prog.resolve(m, c.func) if isinstance(
                    c.func, (ast.Name, ast.Attribute)) else None
                if not r or r[0] != 'class' or r[1] is not k:
                    continue
                sites += 1
                e = kwarg(c, 'fwd')
                if any(kw.arg is None for kw in c.keywords) or \
                        kwarg(c, 'from_dict', 1 if cname ==
                              'RPCResultMessage' else 0) is not None:
                    raise AnalysisError(
                        'UNRECOGNISED-IDIOM %s: items of %s are not named at '
                        'the construction site: %s' % (m.rel, cname, short(c)))
                val = dflt if e is None else prog.fold(m, e)
                if val is UNKNOWN:
                    # not a constant: R16.9 evaluates it for the messages
                    # it may be read from (or says that it is not decided)
                    rep.ok(rid, m.rel, 'fwd item of %s named at the '
                           'construction site, not a constant: its values '
                           'are decided by R16.9' % cname,
                           'src/radical/pilot/%s:%d' % (m.rel, c.lineno))
                    continue
                rep.check(val is True, rid, m.rel, '%s constructed with '
                          'fwd=True (%s)' % (cname, 'class default' if e is
                                             None else 'named'),
                          construct='%s(fwd)' % cname,
                          message='%s: %s is constructed with fwd=%r (%s): '
                          'the RPC %s stays on the side where it is '
                          'published and never reaches the component it is '
                          'addressed to on another side' % (
                              m.rel, cname, val, 'default of the message '
                              'class' if e is None else 'named in the call',
                              'request' if 'Request' in cname else 'reply'),
                          loc='src/radical/pilot/%s:%d' % (m.rel, c.lineno),
                          history='client calls pilot.rpc(...) / a client '
                          'component calls rpc(cmd, rpc_addr=<pilot '
                          'component>): the %s is not forwarded, rpc() waits '
                          'forever' % ('request' if 'Request' in cname
                                       else 'reply'))
        if not sites:
            raise AnalysisError('anchor: no construction site of %s found'
                                % cname)
    if tier == 'thorough':
        n = 0
        for m in prog.modules.values():
            for d in walk(m.tree, nested=True):
                if isinstance(d, ast.Dict):
                    kv = {k.value: v for k, v in zip(d.keys, d.values)
                          if isinstance(k, ast.Constant)}
                    if 'cmd' in kv and isinstance(kv['cmd'], ast.Constant):
                        n += 1
                        rep.info(rid, m.rel, 'message %r: fwd=%s'
                                 % (kv['cmd'].value,
                                    short(kv['fwd'], 20) if 'fwd' in kv
                                    else '<absent: stays local>'),
                                 'src/radical/pilot/%s:%d' % (m.rel, d.lineno))
        rep.stat('sweep_message_literals', n)
        msgs = prog.module('messages.py')
        for k in msgs.classes.values():
            dv = k.consts.get('_defaults')
            v = prog.fold(msgs, dv) if dv is not None else UNKNOWN
            if isinstance(v, dict):
                rep.info(rid, k, 'message class %s: default fwd=%r'
                         % (k.name, v.get('fwd', '<inherited>')))


# ------------------------------------------------------------------------------
# R16.6: typed messages and the forwarder agree on what "untagged" means
#
MSGS = 'messages.py'
TAG_KEYS = ('origin', 'fwd')


def message_classes(prog):
    """the typed message classes: classes of the package that are, or derive
    from, a class of messages.py with a `_schema` / `_defaults` table"""
    def root(c):
        return c.module.rel == MSGS and ('_defaults' in c.consts or
                                         '_schema' in c.consts)
    out = [k for k in prog.all_classes() if any(root(c) for c in prog.mro(k))]
    if not out:
        raise AnalysisError('anchor: no typed message class in %s' % MSGS)
    return sorted(out, key=lambda k: (k.module.rel, k.node.lineno))


def class_defaults(prog, k):
    """{key: (value, declaring class, ast node)} for the protocol keys among
    the items every instance of message class `k` is constructed with:
    ru.TypedDict merges the `_defaults` tables along the bases (the entry of
    the most derived class wins) and copies the result into each new
    instance, so a defaulted key is present in every message of the class"""
    out = {}
    for c in reversed(prog.mro(k)):
        dv = c.consts.get('_defaults')
        if dv is None:
            continue
        items = []
        if isinstance(dv, ast.Dict):
            for kk, vv in zip(dv.keys, dv.values):
                if kk is None:
                    inner = prog.fold(c.module, vv, c)
                    if not isinstance(inner, dict):
                        raise AnalysisError(
                            'UNRECOGNISED-IDIOM %s: `_defaults` merges a '
                            'table that is not a constant: %s'
                            % (c.where, short(vv)))
                    items += [(x, y, vv) for x, y in inner.items()]
                    continue
                key = prog.fold(c.module, kk, c)
                if key is UNKNOWN:
                    raise AnalysisError(
                        'UNRECOGNISED-IDIOM %s: key of `_defaults` is not a '
                        'constant: %s' % (c.where, short(kk)))
                items.append((key, vv, vv))
        elif isinstance(dv, ast.Call) and dotted(dv.func) == 'dict' and \
                not dv.args and all(kw.arg for kw in dv.keywords):
            items = [(kw.arg, kw.value, kw.value) for kw in dv.keywords]
        else:
            whole = prog.fold(c.module, dv, c)
            if not isinstance(whole, dict):
                raise AnalysisError(
                    'UNRECOGNISED-IDIOM %s: `_defaults` is not a dict '
                    'literal: %s' % (c.where, short(dv)))
            items = [(x, y, dv) for x, y in whole.items()]
        for key, v, node in items:
            if key not in TAG_KEYS:
                continue
            if isinstance(v, ast.AST):
                v = prog.fold(c.module, v, c)
                if v is UNKNOWN:
                    raise AnalysisError(
                        'UNRECOGNISED-IDIOM %s: default of %r is not a '
                        'constant: %s' % (c.where, key, short(node)))
            out[key] = (v, c, node)
    # defaults edited after the class statement
    m = k.module
    for n in walk(m.tree, nested=True):
        if isinstance(n, (ast.Assign, ast.AugAssign)):
            for t in (n.targets if isinstance(n, ast.Assign) else [n.target]):
                if isinstance(t, ast.Subscript) and \
                        isinstance(t.value, ast.Attribute) and \
                        t.value.attr == '_defaults':
                    key = prog.fold(m, t.slice, k)
                    if key is UNKNOWN or key in TAG_KEYS:
                        raise AnalysisError(
                            'UNRECOGNISED-IDIOM %s: a `_defaults` table is '
                            'edited outside its class statement: %s'
                            % (m.rel, short(n)))
    return out


def presence_tested(fwd):
    """keys of the message whose PRESENCE decides something in the callback:
    `k in msg`, `k not in msg`, `msg.setdefault(k, ..)`"""
    params = fwd.params
    msg = params[1] if len(params) > 1 else None
    out = set()
    for n in walk(fwd.node):
        if isinstance(n, ast.Compare) and len(n.ops) == 1 and \
                isinstance(n.ops[0], (ast.In, ast.NotIn)) and \
                isinstance(n.comparators[0], ast.Name) and \
                n.comparators[0].id == msg and \
                isinstance(n.left, ast.Constant):
            out.add(n.left.value)
        elif isinstance(n, ast.Call) and isinstance(n.func, ast.Attribute) \
                and n.func.attr == 'setdefault' and \
                isinstance(n.func.value, ast.Name) and \
                n.func.value.id == msg and n.args and \
                isinstance(n.args[0], ast.Constant):
            out.add(n.args[0].value)
    return out


def _effects_text(outs):
    def one(eff):
        if not eff:
            return 'dropped'
        out = []
        for e in eff:
            if e[0] == 'put':
                out.append('put on the target with origin %s' % (
                    'this side' if e[2] else 'missing' if not e[1]
                    else 'not this side'))
            else:
                out.append('the callback raises')
        return ', '.join(out)
    return ' / '.join(sorted({one(eff) for sw, eff in outs}))


def r16_6(prog, rep, rid='R16.6'):
    rep.rule(rid, 'a freshly constructed typed message (all defaulted items '
             'of its class present) is handled by the first forwarder it '
             'meets (local -> proxy) exactly like the dict message with the '
             'same forward flag and no origin tag (whose handling is R16.1)',
             minimum=4)
    cw, fwd, sub, pub, pubvar = forwarder(prog)
    rep.saw(fwd)
    pres = presence_tested(fwd)
    P = False       # nobody but a forwarder publishes on a PROXY_ channel
    for k in message_classes(prog):
        rep.saw(k)
        d = class_defaults(prog, k)
        m = {key: d[key][0] for key in TAG_KEYS if key in d}
        plain = {'fwd': True} if m.get('fwd') else {}
        shown = ', '.join('%r: %r' % kv for kv in sorted(m.items())) or \
            'neither origin nor fwd'
        what = 'a new %s {%s} is forwarded like the dict message %r' % (
            k.name, shown, plain)
        if m == plain:
            rep.ok(rid, k, what, 'src/radical/pilot/%s:%d'
                   % (k.module.rel, k.node.lineno))
            continue
        typed = outcomes_by_value(prog, fwd, pubvar, P, m)
        ref = outcomes_by_value(prog, fwd, pubvar, P, plain)
        dkeys = sorted(pres & set(m))
        if typed is None or ref is None:
            # the value interpretation does not decide the callback; what is
            # certain: a presence test never sees a defaulted key as missing,
            # a value test of the flag does not tell False from a missing key
            if not dkeys and 'origin' in m:
                raise AnalysisError(
                    'UNRECOGNISED-IDIOM %s: how the callback treats the '
                    'default origin=%r of %s is not decided'
                    % (fwd.where, m['origin'], k.name))
            problem = 'the callback tests the presence of %s, which is ' \
                'always given' % ', '.join(repr(x) for x in dkeys) \
                if dkeys else None
        else:
            problem = None if typed == ref else \
                'the typed message is %s, the dict message is %s' % (
                    _effects_text(typed), _effects_text(ref))
        key = 'origin' if 'origin' in d else 'fwd'
        owner, node = d[key][1], d[key][2]
        why = ''
        if 'origin' in m:
            why = " ('origin' is an item of `_defaults` of %s: the key is " \
                  "present in every such message%s)" % (
                      owner.name, ', but the callback recognises an untagged '
                      'message by the absence of the key and never tags it '
                      'with the side identity' if 'origin' in pres else '')
        cons = 'typed messages with the forward flag (RPC requests and ' \
               'replies) never reach the other sides' if m.get('fwd') else \
               'typed messages without the forward flag leave the side ' \
               'where they were published'
        rep.check(problem is None, rid, k, what, construct=k.name,
                  message='%s: a %s is constructed as {%s}%s; at the local -> '
                  'proxy forwarder (%s) %s: %s' % (
                      k.where, k.name, shown, why, fwd.qual, problem, cons),
                  loc='src/radical/pilot/%s:%d' % (
                      owner.module.rel, getattr(node, 'lineno',
                                                k.node.lineno)),
                  history='a component publishes a new %s (%s) on its '
                  'control pubsub: %s' % (
                      k.name, shown, 'the local -> proxy forwarder of that '
                      'side does not put it on the proxy: delivered 0 times '
                      'on every other side (expected 1); rpc() across the '
                      'proxy never returns' if m.get('fwd') else
                      'it is put on the proxy and delivered on every other '
                      'side (expected: stays local)'))



# ------------------------------------------------------------------------------
# R16.4 / R16.5: who is a side, and who wires it
#
# The forwarder table (R16.1) is only a proof of "exactly once per other side"
# if (a) two different sides never compare equal on `self._module` and (b) each
# side has exactly one forwarder per directed (channel, PROXY_ twin) pair.
# Both are facts about Session.__init__ specialised to a session role; they are
# decided by a value interpretation of __init__ (and of every method of the
# class from which a wiring call is reachable, entered at its call sites) once
# per role and per side.
#
ENV_PILOT_ID = 'RP_PILOT_ID'        # exported per pilot by bootstrap_0.sh
CFG_PILOT_ID = 'pid'                # agent config item holding the pilot id
SESSION_ID   = 'rp.session.0000'    # the session id is shared by all sides
PILOTS       = ('pilot.0000', 'pilot.0001')

# how many sessions of a role exist on one side (class comment / docstring of
# Session; agent_0.py, agent_n.py, client.py, radical-pilot-component):
ROLES = {
    '_PRIMARY': ('once', 'client', 'the session of the client application'),
    '_AGENT_0': ('once', 'pilot', 'the first session of a pilot agent'),
    '_AGENT_N': ('many', 'pilot', 'one per sub-agent: zero or more per pilot, '
                 'all connected to the registry and bridges of the agent_0 of '
                 'that pilot and started with its RP_PILOT_ID'),
    '_CLIENT' : ('many', 'both', 'any number of client handles per side'),
    '_DEFAULT': ('many', 'both', 'one per component process: any number per '
                 'side'),
}

_ENV_GET = ('os.environ.get', 'os.getenv', 'environ.get', 'getenv')
_ENV_MAP = ('os.environ', 'environ')


def _self_attr_root(t):
    """attribute name X of the `self.X` an lvalue path starts with"""
    while isinstance(t, (ast.Subscript, ast.Attribute)):
        if isinstance(t, ast.Attribute) and isinstance(t.value, ast.Name) \
                and t.value.id == 'self':
            return t.attr
        t = t.value
    return None


def _stable_attrs(cls, entry):
    """attributes of self that are written in `entry` (the constructor) and
    nowhere else in the class: their value in the interpreter's environment
    cannot be changed behind its back by a call that is not entered"""
    writers = {}
    for mname, f in cls.methods.items():
        for kind, target, stmt in I.stores(f.node, nested=True):
            a = _self_attr_root(target)
            if a is not None:
                writers.setdefault(a, set()).add(mname)
    return {a for a, ms in writers.items() if ms == {entry.name}}


def _wiring_reach(prog, cls, cw):
    """methods of the class (other than cw) from which a call of cw is
    reachable through calls on self"""
    callees = {}
    for mname, f in cls.methods.items():
        out = set()
        for c in calls_in(f.node):
            g = prog.resolve_call(f, c, cls)
            if g is not None and g.cls is cls:
                out.add(g.name)
        callees[mname] = out
    reach = {m for m, out in callees.items() if cw.name in out}
    changed = True
    while changed:
        changed = False
        for m, out in callees.items():
            if m not in reach and out & reach:
                reach.add(m)
                changed = True
    reach.discard(cw.name)
    return reach


class SideInterp(Interp):
    """Interp of Session.__init__ for one role on one side.

    * the environment lookup of the pilot id answers with the side's pilot id
      (unset on the client side); every other variable is unknown;
    * `assert` with a decided false test ends the path;
    * a call that is not entered may change any attribute of self that has a
      writer outside the constructor: those are forgotten after every
      statement with a call;
    * every method from which a wiring call is reachable is entered; the
      chain of entered calls is kept for the messages."""

    def __init__(self, prog, cls, cw, reach, stable, pid, **kw):
        Interp.__init__(self, prog, cls, track=('self._module',), depth=8,
                        **kw)
        self.cw = cw
        self.reach = reach
        self.stable = stable
        self.pid = pid
        self.stack = []
        self.sites = {}

    # -- environment of the process ------------------------------------------
    def _is_env(self, e):
        return dotted(e) in _ENV_MAP

    def ev(self, f, e, env):
        if isinstance(e, ast.Call) and call_name(e) in _ENV_GET and e.args:
            key = Interp.ev(self, f, e.args[0], env)
            if key == ENV_PILOT_ID:
                if self.pid is not None:
                    return self.pid
                d = kwarg(e, 'default', 1)
                return None if d is None else self.ev(f, d, env)
            return UNK
        if isinstance(e, ast.Subscript) and self._is_env(e.value) and \
                not isinstance(e.slice, ast.Slice):
            key = Interp.ev(self, f, e.slice, env)
            if key == ENV_PILOT_ID and self.pid is not None:
                return self.pid
            return UNK
        if isinstance(e, ast.Compare) and len(e.ops) == 1 and \
                isinstance(e.ops[0], (ast.In, ast.NotIn)) and \
                self._is_env(e.comparators[0]):
            key = Interp.ev(self, f, e.left, env)
            if key == ENV_PILOT_ID:
                return (self.pid is not None) == isinstance(e.ops[0], ast.In)
            return UNK
        return Interp.ev(self, f, e, env)

    # -- which calls are entered ---------------------------------------------
    def may_write(self, f, depth=None, _seen=None):
        if f.cls is self.cls and f.name in self.reach:
            return True
        return Interp.may_write(self, f, depth, _seen)

    def _inline(self, f, call, g, env, depth):
        if depth <= 0:
            raise AnalysisError('UNRECOGNISED-IDIOM %s: call chain to the '
                                'wiring / to the side identity is deeper than '
                                'the interpretation follows (%s)'
                                % (f.where, ' > '.join(
                                    x[2].qual for x in self.stack)))
        self.stack.append((f, call, g))
        try:
            return Interp._inline(self, f, call, g, env, depth)
        finally:
            self.stack.pop()

    # -- statements -------------------------------------------------------------
    def effects(self, f, node, edge, env, depth):
        a = node.ast
        if node.kind == 'stmt' and isinstance(a, ast.Assert) and \
                truth(self.ev(f, a.test, env)) is False:
            return []
        if node.kind == 'stmt' and a is not None and f.cls is self.cls and \
                not isinstance(a, (ast.FunctionDef, ast.ClassDef,
                                   ast.AsyncFunctionDef)) and \
                (not self.stack or f.name in self.reach):
            # on the way to the wiring every call must be a direct one: a
            # call through a local, a table or getattr() could be the wiring
            local = None
            for c in calls_in(a):
                fn = c.func
                ind = isinstance(fn, (ast.Call, ast.Subscript, ast.IfExp,
                                      ast.BoolOp))
                if isinstance(fn, ast.Name):
                    if local is None:
                        from ..flow import assigned_names
                        local = set(assigned_names(f.node)) | \
                            (set(f.params) - {'self', 'cls'})
                    ind = fn.id in local
                if ind:
                    raise AnalysisError(
                        'UNRECOGNISED-IDIOM %s: indirect call %s on the way '
                        'to the proxy wiring: the callee is not decided'
                        % (f.where, short(c)))
        outs = Interp.effects(self, f, node, edge, env, depth)
        if node.kind == 'stmt' and a is not None and \
                not isinstance(a, (ast.FunctionDef, ast.ClassDef,
                                   ast.AsyncFunctionDef)):
            # what a call that was not entered may have changed (objects
            # below self are assumed not to hold a reference back to self)
            everything, below = False, set()
            for c in calls_in(a):
                if any(isinstance(x, ast.Name) and x.id == 'self'
                       for x in list(c.args) + [k.value for k in c.keywords]):
                    everything = True
                fn = c.func
                if isinstance(fn, ast.Attribute):
                    root = _self_attr_root(fn.value)
                    if isinstance(fn.value, ast.Name) and \
                            fn.value.id == 'self':
                        everything = True
                    elif isinstance(fn.value, ast.Call) and \
                            dotted(fn.value.func) == 'super':
                        everything = True
                    elif root is not None:
                        below.add(root)
            if everything or below:
                for e in outs:
                    for k in list(e):
                        if not k.startswith('self.') or \
                                k.startswith('self.@') or \
                                k.rstrip('@') in self.track:
                            continue
                        attr = k[5:].split('.')[0].split('[')[0]
                        if attr in self.stable:
                            continue
                        if everything or attr in below:
                            del e[k]
        return outs


def _side_runs(prog, rep):
    """{(role name, pid): (exits, interp)}; exits = [(identity, writer text,
    wires)], wires = ((src, tgt, from_proxy, chain key), ...) in call order"""
    cw, fwd, sub, pub, pubvar = forwarder(prog)
    sess = prog.cls(*SESS)
    init = sess.methods.get('__init__')
    if init is None:
        raise AnalysisError('anchor Session.__init__ not found')
    rep.saw(init)
    if '_role' not in init.params or 'uid' not in init.params:
        raise AnalysisError('UNRECOGNISED-IDIOM %s: parameters _role / uid '
                            'missing' % init.where)
    roles = {}
    for nm, e in sess.consts.items():
        v = prog.fold(sess.module, e, sess)
        if isinstance(v, str) and nm.isupper():
            roles[nm] = v
    for nm in ('_PRIMARY', '_AGENT_0'):
        if nm not in roles:
            raise AnalysisError('anchor role constant Session.%s not found'
                                % nm)
    reach = _wiring_reach(prog, sess, cw)
    stable = _stable_attrs(sess, init)
    cwp = [p for p in cw.params if p != 'self']
    runs = {}
    states = 0
    for nm, val in sorted(roles.items()):
        side = ROLES.get(nm, (None, 'both', ''))[1]
        pids = {'client': (None,), 'pilot': PILOTS,
                'both': (None, PILOTS[0])}[side]
        for pid in pids:
            inputs = {}
            if pid is not None:
                for base in ('cfg', 'self._cfg', 'self.cfg'):
                    inputs['%s.%s' % (base, CFG_PILOT_ID)] = pid
                    inputs['%s[%r]' % (base, CFG_PILOT_ID)] = pid

            def observe(fn, node, env):
                if node.kind != 'stmt' or node.ast is None or \
                        isinstance(node.ast, (ast.FunctionDef, ast.ClassDef)):
                    return
                for c in calls_in(node.ast):
                    if not isinstance(c.func, ast.Attribute) or \
                            c.func.attr != cw.name or \
                            ip.prog.resolve_call(fn, c, sess) is not cw:
                        continue
                    vals = []
                    for i, pn in enumerate(cwp):
                        e = kwarg(c, pn, i)
                        vals.append(ip.ev(fn, e, env) if e is not None
                                    else UNK)
                    if any(v is UNK or not isinstance(v, (str, bool))
                           for v in vals):
                        raise AnalysisError(
                            'UNRECOGNISED-IDIOM %s: arguments of %s are not '
                            'evaluable' % (fn.where, short(c)))
                    chain = ' > '.join([x[2].qual for x in ip.stack] or
                                       [fn.qual])
                    ip.sites.setdefault(chain, (list(ip.stack), fn, c))
                    env['self.@wires'] = tuple(env.get('self.@wires', ())) \
                        + (tuple(vals) + (chain,),)

            ip = SideInterp(prog, sess, cw, reach, stable, pid,
                            inputs=inputs, observe=observe)
            exits = ip.run(init, {'_role': val, 'uid': SESSION_ID})
            states += ip.states
            out = []
            for fe in exits:
                d = {k: v for k, v in fe}
                w = thaw(d.get('self.@wires', ('__T', ())))
                out.append((thaw(d['self._module']) if 'self._module' in d
                            else '<unset>', d.get('self._module@', ''),
                            tuple(tuple(x) for x in w)))
            runs[(nm, pid)] = (out, ip)
    rep.stat('side_interp_states', states)
    return cw, init, roles, runs


def _ids(exits):
    return sorted({i for i, _, _ in exits}, key=repr)


def r16_4(prog, rep, sides, rid='R16.4'):
    rep.rule(rid, 'the side identity Session._module (stamped into '
             "msg['origin'] and compared by the forwarders) of a session that "
             'wires a pilot to the proxy differs between two pilots and from '
             'the identity of the client session', minimum=2)
    cw, init, roles, runs = sides
    sess = prog.cls(*SESS)
    ea, ipa = runs[('_AGENT_0', PILOTS[0])]
    eb, ipb = runs[('_AGENT_0', PILOTS[1])]
    ec, ipc = runs[('_PRIMARY', None)]
    if not ea or not eb or not ec:
        # (R16.5 reports a role whose construction never completes)
        raise AnalysisError('%s: no path through the construction of a %s '
                            'session completes: its side identity is not '
                            'defined' % (init.where, 'primary' if not ec
                                         else 'agent_0'))
    ia, ib, ic = _ids(ea), _ids(eb), _ids(ec)
    for who, ids in (('agent_0 session', ia + ib), ('primary session', ic)):
        if any(i is UNK or i == '<unset>' or not isinstance(i, (str, int))
               and i is not None for i in ids):
            raise AnalysisError(
                'UNRECOGNISED-IDIOM %s: the value of self._module of a %s is '
                'not evaluable (%s): it is computed from something else than '
                'constants, the session role / id, the %s environment '
                'variable and the `%s` config item'
                % (init.where, who, ', '.join(sorted({repr(i) for i in ids})),
                   ENV_PILOT_ID, CFG_PILOT_ID))
    wloc = None
    for f in sess.methods.values():
        for kind, t, stmt in I.stores(f.node, nested=True):
            if unparse(t) == 'self._module' and wloc is None:
                wloc = f.loc(stmt)
    how = sorted({w for _, w, _ in ea + eb if w})
    common = [i for i in ia if i in ib]
    rep.check(not common, rid, init, 'agent_0 sessions of %s and %s get '
              'different side identities' % PILOTS,
              construct='identity: pilot / pilot',
              message='Session.__init__: the side identity self._module of '
              'the agent_0 session is %r for %s and for %s (%s): it does not '
              'depend on the pilot id (%s in the environment / cfg.%s), so '
              'all pilots of a session are one "side" for the forwarders: '
              'the proxy->local forwarder of every pilot discards the '
              'forwarded messages of all other pilots as its own '
              '(msg[\'origin\'] == self._module)'
              % (common[0] if common else None, PILOTS[0], PILOTS[1],
                 '; '.join(how) or 'no assignment seen', ENV_PILOT_ID,
                 CFG_PILOT_ID), loc=wloc or init.loc(),
              history="one client, pilots %s and %s: %s publishes {'cmd': "
              "..., 'fwd': True} on its control or state pubsub; the message "
              "is tagged origin=%r, crosses the proxy, reaches the client "
              "once, and is dropped by the proxy->local forwarder of %s: "
              "delivered 0 times there (expected 1); same in the other "
              "direction" % (PILOTS[0], PILOTS[1], PILOTS[0],
                             common[0] if common else None, PILOTS[1]))
    clash = [i for i in ic if i in ia + ib]
    rep.check(not clash, rid, init, 'the primary session and the agent_0 '
              'sessions get different side identities',
              construct='identity: client / pilot',
              message='Session.__init__: the side identity self._module of '
              'the primary (client) session is %r, which is also the identity '
              'of the agent_0 session of pilot %s: client and that pilot are '
              'one "side" for the forwarders, each discards the forwarded '
              'messages of the other as its own'
              % (clash[0] if clash else None,
                 PILOTS[0] if clash and clash[0] in ia else PILOTS[1]),
              loc=wloc or init.loc(),
              history="client publishes cancel_tasks with fwd=True: tagged "
              "origin=%r; the proxy->local forwarder of the pilot with the "
              "same identity drops it: the tasks on that pilot keep running"
              % (clash[0] if clash else None))


def _blame(ip, chain, init):
    frames, fn, call = ip.sites[chain]
    if len(frames) >= 2:
        f = frames[0][2]
        return f, f.loc(frames[1][1])
    if frames:
        return init, init.loc(frames[0][1])
    return fn, fn.loc(call)


def r16_5(prog, rep, sides, rid='R16.5'):
    rep.rule(rid, 'each side has exactly one forwarder per directed (pubsub, '
             'PROXY_ twin) pair: the pairs are wired exactly once on every '
             'path through the construction of a primary / agent_0 session '
             '(one per side), never by a session role that exists more than '
             'once per side, and by nobody outside Session', minimum=16)
    cw, init, roles, runs = sides
    cm = prog.module(CONST)
    proxy_vals = {}
    for nm in cm.assigns:
        v = prog.fold(cm, ast.Name(id=nm, ctx=ast.Load()))
        if isinstance(v, str) and nm.isupper():
            proxy_vals.setdefault(v, nm)

    def is_proxy(v):
        return proxy_vals.get(v, '').startswith('PROXY_')

    def nm(v):
        return proxy_vals.get(v, repr(v))
    need = []
    for ch in ('CONTROL_PUBSUB', 'STATE_PUBSUB'):
        a, b = prog.const(CONST, ch), prog.const(CONST, 'PROXY_' + ch)
        need += [(a, b), (b, a)]
    wired_once = set(need)
    for rname in sorted(roles):
        mult, side, descr = ROLES.get(rname, (None, 'both', ''))
        label = roles[rname]
        for (rn, pid), (exits, ip) in sorted(runs.items(), key=repr):
            if rn != rname:
                continue
            pw = [[w for w in ws if is_proxy(w[0]) or is_proxy(w[1])]
                  for _, _, ws in exits]
            if mult == 'once':
                if pid == PILOTS[1]:
                    continue
                rep.check(bool(exits), rid, init, 'construction of a %s '
                          'session completes' % label,
                          construct='role %s: constructed' % label,
                          message='Session.__init__: no path through the '
                          'construction of a %s session completes (an '
                          'assertion on the role, or a raise, stops every '
                          'path): this side is never wired to the proxy'
                          % label, loc=init.loc(),
                          history='a %s session is created: it raises before '
                          'the forwarders exist; no forwarded message reaches '
                          'or leaves this side' % label)
                if not exits:
                    continue
                seen_pairs = {(w[0], w[1]) for ws in pw for w in ws}
                for s, t in need + sorted(seen_pairs - set(need)):
                    counts = sorted({sum(1 for w in ws if (w[0], w[1]) ==
                                         (s, t)) for ws in pw})
                    chains = sorted({w[3] for ws in pw for w in ws
                                     if (w[0], w[1]) == (s, t)})
                    if chains:
                        where, loc = _blame(ip, chains[-1], init)
                    else:
                        where, loc = init, init.loc()
                    if counts == [1]:
                        rep.ok(rid, where, '%s session: %s -> %s wired '
                               'exactly once' % (label, nm(s), nm(t)), loc)
                        continue
                    many = counts[-1] > 1
                    rep.bad(rid, where, 'role %s: %s -> %s' % (
                        label, nm(s), nm(t)),
                        'Session.__init__ for role %s: %s is wired to %s %s '
                        '(%s): %s' % (
                            label, nm(s), nm(t),
                            '%d times on some path' % counts[-1] if many
                            else 'on no path' if counts == [0]
                            else 'on some paths only',
                            '; '.join(chains) or 'no wiring call reached',
                            'every message is put on the target once per '
                            'forwarder: delivered %d times' % counts[-1]
                            if many else 'forwarded messages never %s this '
                            'side' % ('leave' if is_proxy(t) else 'reach')),
                        loc, history='%s publishes a message with fwd=True: '
                        '%s' % ('this side' if is_proxy(t) else
                                'another side', 'every other side receives '
                                'it %d times' % counts[-1] if many and
                                is_proxy(t) else 'this side receives it %d '
                                'times' % counts[-1] if many else
                                'it is never delivered across the proxy'))
                for ws in pw:
                    for w in ws:
                        wired_once.add((w[0], w[1]))
                continue
            chains = sorted({w[3] for ws in pw for w in ws})
            if chains and mult is None:
                raise AnalysisError(
                    'UNRECOGNISED-IDIOM %s: a session of role %s (%s) wires '
                    'pubsubs to the proxy; the rule does not know how many '
                    'sessions of that role exist per side'
                    % (init.where, rname, label))
            if not chains:
                rep.ok(rid, init, '%s session (%s): wires nothing to the '
                       'proxy' % (label, 'pilot side' if pid else
                                  'client side'), init.loc())
                continue
            where, loc = _blame(ip, chains[0], init)
            wires = sorted({'%s -> %s' % (nm(w[0]), nm(w[1]))
                            for ws in pw for w in ws})
            rep.bad(rid, where, 'role %s wires' % label,
                    'Session.__init__ for role %s reaches the proxy wiring '
                    '(%s) and creates forwarders %s. %s; such a session uses '
                    'the bridges and the side identity of the side it lives '
                    'on, so the side has one more identical forwarder pair '
                    'per such session: every message with the forward flag '
                    'published on this side is put on the proxy once per '
                    'pair, and every message from the proxy is published on '
                    'this side once per pair' % (
                        label, chains[0], ', '.join(wires),
                        'Role %s: %s' % (label, descr)),
                    loc, history="client, pilot.0000 (agent_0 and one %s "
                    "session), pilot.0001: {'cmd': ..., 'fwd': True} "
                    "published on pilot.0000 is delivered 2 times to the "
                    "client and to pilot.0001; published on the client it is "
                    "delivered 2 times on pilot.0000" % label)
    # nobody outside Session wires what the session wires itself
    sess = prog.cls(*SESS)
    names = {cw.name} | {fn.name for _, ip in runs.values()
                         for _, fn, _ in ip.sites.values()
                         if not fn.name.startswith('__')}
    ext = 0
    for m in prog.modules.values():
        for k in list(m.classes.values()) + [None]:
            funcs = (k.methods if k is not None else m.funcs).values()
            if k is sess:
                continue
            for f in funcs:
                for c in calls_in(f.node, nested=True):
                    if not isinstance(c.func, ast.Attribute) or \
                            c.func.attr not in names:
                        continue
                    recv = c.func.value
                    if isinstance(recv, ast.Name) and recv.id == 'self' and \
                            (k is None or prog.find_method(k, c.func.attr)
                             is not None):
                        continue            # a method of its own class
                    ext += 1
                    if c.func.attr == cw.name:
                        vals = [prog.fold(m, kwarg(c, pn, i), k)
                                if kwarg(c, pn, i) is not None else UNKNOWN
                                for i, pn in enumerate(('src', 'tgt'))]
                        if any(v is UNKNOWN for v in vals):
                            raise AnalysisError(
                                'UNRECOGNISED-IDIOM %s: channels of %s are '
                                'not constants' % (f.where, short(c)))
                        dup = tuple(vals) in wired_once
                    else:
                        dup = True
                    rep.check(not dup, rid, f, '%s wires channels the '
                              'session does not wire itself' % short(c, 40),
                              construct='external %s' % c.func.attr,
                              message='%s calls %s: the primary / agent_0 '
                              'session has wired these pubsubs to the proxy '
                              'in its constructor already; every further call '
                              'adds a second forwarder pair on the same '
                              'bridges: forwarded messages are delivered '
                              'twice' % (f.qual, short(c, 60)),
                              loc=f.loc(c),
                              history='any message with fwd=True published '
                              'after %s ran is delivered 2 times on every '
                              'other side' % f.qual)
    rep.stat('external_wiring_calls', ext)


# ------------------------------------------------------------------------------
# R16.7  the value compared with the origin tag is the value stamped as origin
#
# The forwarder recognises "own" messages by comparing msg['origin'] with the
# identity of this side, and it is the forwarder that stamps that identity
# into untagged messages.  Necessary for "never a second time to the side it
# came from" and for "forwarded exactly once": both operands come from the
# same source.  Sources are resolved by definition: through locals of the
# callback and of the wiring method bound once, through attributes of the
# session that are bound once (in __init__) to another attribute, and through
# properties that return an attribute.
#
def _sole_writer(sess, attr):
    """(FuncInfo, value expr) of the only statement that writes self.<attr>
    anywhere in the class, if it is a plain assignment in __init__; else
    None"""
    table = getattr(sess, '_c16_writers', None)
    if table is None:
        table = sess._c16_writers = {}
        for mname, f in sess.methods.items():
            for kind, target, stmt in I.stores(f.node, nested=True):
                a = _self_attr_root(target)
                if a is not None:
                    table.setdefault(a, []).append((f, kind, target, stmt))
    writers = table.get(attr, [])
    if len(writers) != 1:
        return None
    f, kind, target, stmt = writers[0]
    if f.name != '__init__' or kind != 'assign' or \
            not isinstance(stmt, ast.Assign) or len(stmt.targets) != 1 or \
            unparse(target) != 'self.%s' % attr or stmt.targets[0] is not target:
        return None
    return f, stmt.value


def _pure_lookup(e):
    """expression made of constants and lookups in the process environment
    only: evaluated twice in the same process it gives the same value"""
    for n in ast.walk(e):
        if isinstance(n, ast.Call) and call_name(n) not in _ENV_GET:
            return False
        if isinstance(n, ast.Name) and n.id not in ('os', 'environ'):
            return False
        if isinstance(n, (ast.Lambda, ast.Await, ast.Yield, ast.YieldFrom,
                          ast.NamedExpr, ast.Starred)):
            return False
    return True


def identity_source(prog, cw, fn, e, scope='cb', depth=0):
    """where the value of expression `e` (read in the callback `fn`, a
    function nested in the wiring method `cw`) comes from:
    ('self', attr) | ('const', value) | ('wire', parameter of cw) |
    ('global', name); None if that is not decided"""
    sess = cw.cls
    if depth > 6:
        return None
    if isinstance(e, ast.Constant):
        return ('const', e.value)
    if isinstance(e, ast.Call) and isinstance(e.func, ast.Name) and \
            e.func.id == 'str' and len(e.args) == 1 and not e.keywords:
        return identity_source(prog, cw, fn, e.args[0], scope, depth + 1)
    if isinstance(e, ast.Name):
        if scope == 'cb':
            own = {a.arg for a in fn.args.posonlyargs + fn.args.args +
                   fn.args.kwonlyargs}
            if e.id in own:
                return None
            stores = [n for n in walk(fn) if isinstance(n, ast.Name) and
                      n.id == e.id and isinstance(n.ctx, (ast.Store, ast.Del))]
            if stores:
                defs = [x for x in walk(fn) if isinstance(x, ast.Assign) and
                        len(x.targets) == 1 and
                        isinstance(x.targets[0], ast.Name) and
                        x.targets[0].id == e.id]
                if len(stores) != 1 or len(defs) != 1:
                    return None
                return identity_source(prog, cw, fn, defs[0].value, 'cb',
                                       depth + 1)
        for n in walk(cw.node, nested=True):
            if isinstance(n, (ast.Nonlocal, ast.Global)) and e.id in n.names:
                return None
        stores = [n for n in walk(cw.node) if isinstance(n, ast.Name) and
                  n.id == e.id and isinstance(n.ctx, (ast.Store, ast.Del))]
        if e.id in cw.params:
            return None if stores or e.id == 'self' else ('wire', e.id)
        if stores:
            defs = [x for x in walk(cw.node) if isinstance(x, ast.Assign) and
                    len(x.targets) == 1 and
                    isinstance(x.targets[0], ast.Name) and
                    x.targets[0].id == e.id]
            if len(stores) != 1 or len(defs) != 1:
                return None
            return identity_source(prog, cw, fn, defs[0].value, 'cw',
                                   depth + 1)
        if e.id in cw.nested:
            return None
        return ('global', e.id)
    if isinstance(e, ast.Attribute) and isinstance(e.value, ast.Name) and \
            e.value.id == 'self' and sess is not None:
        attr = e.attr
        for k in prog.mro(sess):
            m = k.methods.get(attr)
            if m is None:
                continue
            decos = [unparse(d) for d in m.node.decorator_list]
            rets = [x for x in walk(m.node) if isinstance(x, ast.Return)]
            if decos == ['property'] and len(rets) == 1 and \
                    rets[0].value is not None and \
                    len([x for x in m.node.body
                         if not (isinstance(x, ast.Expr) and
                                 isinstance(x.value, ast.Constant))]) == 1:
                v = rets[0].value
                if isinstance(v, ast.Attribute) and \
                        isinstance(v.value, ast.Name) and v.value.id == 'self':
                    return identity_source(prog, cw, fn, v, 'cw', depth + 1)
            return None
        w = _sole_writer(sess, attr)
        if w is not None:
            v = w[1]
            if isinstance(v, ast.Attribute) and \
                    isinstance(v.value, ast.Name) and v.value.id == 'self':
                return identity_source(prog, cw, fn, v, 'cw', depth + 1)
        return ('self', attr)
    return None


def _same_source(sess, a, b):
    if a == b:
        return True
    if a[0] == 'self' and b[0] == 'self':
        wa, wb = _sole_writer(sess, a[1]), _sole_writer(sess, b[1])
        if wa is not None and wb is not None and \
                ast.dump(wa[1]) == ast.dump(wb[1]) and _pure_lookup(wa[1]):
            return True
    return False


def _source_text(src):
    return {'self': 'self.%s', 'const': '%r', 'wire': 'the parameter `%s` '
            'of the wiring method', 'global': 'the global `%s`'}[src[0]] \
        % (src[1],)


def _tag_sites(prog, sess, owner, fn, msg, pubvar, ctx, depth=0):
    """(stamps, compares) of the origin tag of message variable `msg` in
    function node `fn` and in the methods of the session it hands the message
    to: [(node, operand expr, (scope FuncInfo, function node), owner)]"""
    at = Atoms(msg, pubvar, fn)
    stamps, compares = [], []
    for n in walk(fn):
        if isinstance(n, ast.Assign):
            for t in n.targets:
                if isinstance(t, ast.Subscript) and at._is_msg(t.value) and \
                        isinstance(t.slice, ast.Constant) and \
                        t.slice.value == 'origin':
                    stamps.append((n, n.value, ctx, owner))
        elif isinstance(n, ast.Call) and isinstance(n.func, ast.Attribute) \
                and n.func.attr == 'setdefault' and at._is_msg(n.func.value) \
                and len(n.args) == 2 and \
                isinstance(n.args[0], ast.Constant) and \
                n.args[0].value == 'origin':
            stamps.append((n, n.args[1], ctx, owner))
        elif isinstance(n, ast.Compare) and len(n.ops) == 1 and \
                isinstance(n.ops[0], (ast.Eq, ast.NotEq)):
            l, r = n.left, n.comparators[0]
            for a, b in ((l, r), (r, l)):
                k, how = at._msg_key(a)
                if k != 'origin' or at._msg_key(b)[0] == 'origin':
                    continue
                if isinstance(b, ast.Constant) and (b.value is None or
                                                    isinstance(b.value, bool)):
                    continue            # presence test, not an identity test
                compares.append((n, b, ctx, owner))
                break
        if isinstance(n, ast.Call) and isinstance(n.func, ast.Attribute) and \
                isinstance(n.func.value, ast.Name) and \
                n.func.value.id == 'self' and depth < 2:
            g = prog.resolve_call(owner, n, sess)
            if g is None or g.cls is None or g.node is fn:
                continue
            gp = [p for p in g.params if p not in ('self', 'cls')]
            pname = None
            for i, x in enumerate(n.args):
                if at._is_msg(x) and i < len(gp):
                    pname = gp[i]
            for kw in n.keywords:
                if kw.arg and at._is_msg(kw.value):
                    pname = kw.arg
            if pname is None or any(
                    isinstance(x, ast.Name) and x.id == pname and
                    isinstance(x.ctx, (ast.Store, ast.Del))
                    for x in walk(g.node)):
                continue
            st, cm = _tag_sites(prog, sess, g, g.node, pname, None,
                                (g, g.node), depth + 1)
            stamps += st
            compares += cm
    return stamps, compares


def r16_7(prog, rep, rid='R16.7'):
    rep.rule(rid, "the forwarder compares the origin tag of a message with "
             "the very value it stamps into untagged messages (both operands "
             "have the same source: the side identity)", minimum=1)
    cw, fwd, sub, pub, pubvar = forwarder(prog)
    sess = prog.cls(*SESS)
    params = fwd.params
    if len(params) < 2:
        raise AnalysisError('UNRECOGNISED-IDIOM %s: callback is not '
                            '(topic, msg)' % fwd.where)
    fn = fwd.node
    stamps, compares = _tag_sites(prog, sess, fwd, fn, params[1], pubvar,
                                  (cw, fn))
    ssrc = []
    for n, v, (scope, node), owner in stamps:
        src = identity_source(prog, scope, node, v)
        if src is None:
            return          # (R16.1 decides or rejects the shape)
        if not any(_same_source(sess, src, x) for x in ssrc):
            ssrc.append(src)
    if not ssrc:
        # never tagged (R16.1 reports that): the tag other sides stamp is
        # their Session._module, the identity R16.4 shows to differ per side
        ssrc = [('self', '_module')]
    g = cfg_of(fwd)
    smap = I.stmt_node_map(g)
    from ..flow import guards
    # a comparison matters if the decision to publish depends on it: it is
    # (or feeds) a test one arm of which reaches other puts than the other
    # arm (a comparison that only selects a log line does not)
    put_ids = {x.id for x in g.nodes if x.ast is not None and
               x.kind in ('stmt', 'test') and any(
                   isinstance(c.func, ast.Attribute) and
                   c.func.attr == 'put' and unparse(c.func.value) == pubvar
                   for c in calls_in(x.ast))}
    deciding = []
    for x in g.nodes:
        if x.kind != 'test':
            continue
        arms = {e.label: frozenset(set(g.reachable(e.dst)) & put_ids)
                for e in g.succ[x.id] if e.label in ('T', 'F')}
        if len(set(arms.values())) > 1:
            deciding.append(x)
    deps = Deps(fn, nested=False)
    feeds = set()
    for t in deciding:
        feeds |= set(deps.expr_depends(t.ast))

    def matters(n, node):
        if node is not fn or not put_ids:
            return True
        cn = smap.get(id(n))
        if cn is None:
            return False
        if cn.kind == 'test':
            if cn in deciding:
                return True
            # a verdict variable assigned under this test and read by a
            # deciding test
            for x in walk(fn):
                if isinstance(x, (ast.If, ast.While)) and any(
                        y is n for y in ast.walk(x.test)):
                    stored = {y.id for part in (x.body, x.orelse)
                              for st in part for y in ast.walk(st)
                              if isinstance(y, ast.Name) and
                              isinstance(y.ctx, ast.Store)}
                    if stored & feeds:
                        return True
            return False
        a = cn.ast
        if isinstance(a, ast.Assign) and any(
                isinstance(t, ast.Name) for t in a.targets):
            names = {t.id for t in a.targets if isinstance(t, ast.Name)}
            return bool(names & feeds)
        return False

    for n, other, (scope, node), owner in compares:
        if not matters(n, node):
            continue
        src = identity_source(prog, scope, node, other)
        if src is None:
            continue
        direction = None
        cnode = smap.get(id(n)) if node is fn else None
        if cnode is not None:
            for tid, lab in guards(g, cnode.id):
                t = g.nodes[tid].ast
                if isinstance(t, ast.Name) and t.id == 'from_proxy':
                    direction = lab == 'T'
        where = {True: 'proxy -> local', False: 'local -> proxy',
                 None: 'forwarding'}[direction]
        ok = len(ssrc) == 1 and _same_source(sess, src, ssrc[0])
        stamp_txt = ' / '.join(_source_text(x) for x in ssrc)
        if direction is True:
            cons = ('a message this side put on the proxy is not recognised '
                    'as its own when it comes back: it is published a second '
                    'time on the side it came from')
        elif direction is False:
            cons = ('a message published on this side with the forward flag '
                    'is not recognised as its own and never leaves the side '
                    '(or messages of other sides are sent back to the proxy)')
        else:
            cons = ('own messages are not recognised as own: they come back '
                    'from the proxy a second time / never leave this side')
        rep.check(ok, rid, fwd, 'the %s rule compares the origin tag with %s, '
                  'the value stamped into untagged messages'
                  % (where, _source_text(src)),
                  construct='%s: origin compared with %s' % (
                      where, unparse(other)),
                  message='%s: the %s rule compares msg[\'origin\'] with %s, '
                  'but untagged messages are stamped with %s: the two have '
                  'different sources (nothing in %s binds one to the other), '
                  'so the comparison does not tell whether the message '
                  'originated on this side; %s'
                  % (owner.qual, where, _source_text(src), stamp_txt,
                     sess.name, cons), loc=owner.loc(n),
                  history="a component of this side publishes {'cmd': ..., "
                  "'fwd': True}: the local -> proxy forwarder stamps origin "
                  "= %s; the %s forwarder then compares that tag with %s: %s"
                  % (stamp_txt, where, _source_text(src), cons))


# ------------------------------------------------------------------------------
# R16.8  the endpoints the proxy advertises for a channel are those of the
#        bridge it created for that channel
#
# `Proxy._worker` creates one bridge per proxy channel and reports a table
# {channel: {addr_*: endpoint}} to the sessions (register / lookup ->
# Session._publish_cfg -> registry `bridges.<channel>.addr_*` ->
# crosswire_pubsub).  Every side publishes to `addr_pub` and subscribes at
# `addr_sub` of the channel: if the table holds, under one channel, the
# endpoint of another bridge (or the other endpoint of the right one), the
# forwarded messages of that channel are put on a bridge nobody listens on.
#
PROXY = ('proxy.py', 'Proxy')


def _bridges_of(prog, f):
    """{local name: (channel, call)} for `name = <Bridge>(channel=<const>..)`
    in f; a name bound to bridges of two channels is not decided"""
    out = {}
    for s in walk(f.node):
        if not isinstance(s, ast.Assign) or not isinstance(s.value, ast.Call):
            continue
        ch = kwarg(s.value, 'channel')
        if ch is None:
            continue
        v = prog.fold(f.module, ch, f.cls)
        if not isinstance(v, str):
            raise AnalysisError('UNRECOGNISED-IDIOM %s: channel of %s is not '
                                'a constant' % (f.where, short(s.value)))
        for t in s.targets:
            if not isinstance(t, ast.Name):
                raise AnalysisError('UNRECOGNISED-IDIOM %s: bridge not bound '
                                    'to a local: %s' % (f.where, short(s)))
            if t.id in out and out[t.id][0] != v:
                raise AnalysisError('UNRECOGNISED-IDIOM %s: `%s` is bound to '
                                    'bridges of two channels' % (f.where,
                                                                 t.id))
            out[t.id] = (v, s.value)
    return out


def _local_value(f, e, bridges, depth=0):
    """follow locals bound once (ignoring `x = None` initialisations) and
    str() wrappers"""
    while depth < 6:
        depth += 1
        if isinstance(e, ast.Call) and isinstance(e.func, ast.Name) and \
                e.func.id == 'str' and len(e.args) == 1 and not e.keywords:
            e = e.args[0]
            continue
        if isinstance(e, ast.Name) and e.id not in bridges:
            defs = [s.value for s in walk(f.node)
                    if isinstance(s, ast.Assign) and any(
                        isinstance(t, ast.Name) and t.id == e.id
                        for t in s.targets) and not (
                        isinstance(s.value, ast.Constant) and
                        s.value.value is None)]
            others = [n for n in walk(f.node) if isinstance(n, ast.Name) and
                      n.id == e.id and isinstance(n.ctx, (ast.Store, ast.Del))]
            nones = [s for s in walk(f.node) if isinstance(s, ast.Assign) and
                     isinstance(s.value, ast.Constant) and
                     s.value.value is None and any(
                         isinstance(t, ast.Name) and t.id == e.id
                         for t in s.targets)]
            if len(defs) != 1 or len(others) != 1 + len(nones):
                return e
            e = defs[0]
            continue
        if isinstance(e, ast.Attribute):
            inner = _local_value(f, e.value, bridges, depth)
            if inner is not e.value:
                e = ast.copy_location(ast.Attribute(value=inner, attr=e.attr,
                                                    ctx=ast.Load()), e)
        break
    return e


def _advertised(prog, f, bridges):
    """[(channel, addr key, value expr, node)] of every table entry
    {<channel>: {<addr key>: value}} built in f, as a literal, with dict(),
    or by subscript stores"""
    chans = {c for c, _ in bridges.values()}
    out = []

    def const(e):
        v = prog.fold(f.module, e, f.cls) if e is not None else UNKNOWN
        return v if isinstance(v, str) else None

    def inner(ch, e, node):
        e = _local_value(f, e, bridges)
        if isinstance(e, ast.Dict):
            for k, v in zip(e.keys, e.values):
                a = const(k)
                if a is None:
                    raise AnalysisError(
                        'UNRECOGNISED-IDIOM %s: the endpoint table of %s has '
                        'a computed key' % (f.where, ch))
                out.append((ch, a, v, node))
            return True
        if isinstance(e, ast.Call) and isinstance(e.func, ast.Name) and \
                e.func.id == 'dict' and not e.args and \
                all(k.arg for k in e.keywords):
            for k in e.keywords:
                out.append((ch, k.arg, k.value, node))
            return True
        if isinstance(e, ast.Call) and depth[0] < 2:
            # a helper that builds the endpoint table of one bridge:
            # `return {addr_*: <param>.addr_*}` with the bridge as argument
            g = prog.resolve_call(f, e, f.cls)
            if g is None and isinstance(e.func, ast.Name):
                g = f.nested.get(e.func.id)
            if g is None:
                return False
            body = [x for x in g.node.body if not (
                isinstance(x, ast.Expr) and isinstance(x.value, ast.Constant))]
            if len(body) != 1 or not isinstance(body[0], ast.Return) or \
                    body[0].value is None or e.keywords or \
                    any(isinstance(x, ast.Starred) for x in e.args):
                return False
            gp = [p for p in g.params if p not in ('self', 'cls')] \
                if g.cls is not None else list(g.params)
            if len(gp) != len(e.args):
                return False
            import copy
            mapping = dict(zip(gp, e.args))

            class Sub(ast.NodeTransformer):
                def visit_Name(self, n):
                    if n.id in mapping and isinstance(n.ctx, ast.Load):
                        return copy.deepcopy(mapping[n.id])
                    return n
            ret = Sub().visit(copy.deepcopy(body[0].value))
            for x in ast.walk(ret):
                if not hasattr(x, 'lineno'):
                    ast.copy_location(x, e)
            ast.fix_missing_locations(ret)
            depth[0] += 1
            try:
                return inner(ch, ret, node)
            finally:
                depth[0] -= 1
        return False

    depth = [0]

    for n in walk(f.node):
        if isinstance(n, ast.Dict):
            for k, v in zip(n.keys, n.values):
                ch = const(k)
                if ch in chans and not inner(ch, v, n):
                    raise AnalysisError(
                        'UNRECOGNISED-IDIOM %s: the endpoints advertised for '
                        '%s are not a table {addr_*: endpoint}: %s'
                        % (f.where, ch, short(v)))
        elif isinstance(n, ast.Call) and isinstance(n.func, ast.Name) and \
                n.func.id == 'dict' and not n.args:
            for k in n.keywords:
                if k.arg in chans and not inner(k.arg, k.value, n):
                    raise AnalysisError(
                        'UNRECOGNISED-IDIOM %s: the endpoints advertised for '
                        '%s are not a table {addr_*: endpoint}: %s'
                        % (f.where, k.arg, short(k.value)))
        elif isinstance(n, ast.Assign):
            for t in n.targets:
                if not isinstance(t, ast.Subscript):
                    continue
                ch = const(t.slice)
                if ch in chans and isinstance(t.value, ast.Name):
                    if not inner(ch, n.value, n):
                        raise AnalysisError(
                            'UNRECOGNISED-IDIOM %s: the endpoints advertised '
                            'for %s are not a table {addr_*: endpoint}: %s'
                            % (f.where, ch, short(n.value)))
                elif isinstance(t.value, ast.Subscript) and \
                        isinstance(t.value.value, ast.Name) and \
                        const(t.value.slice) in chans:
                    a = const(t.slice)
                    if a is None:
                        raise AnalysisError(
                            'UNRECOGNISED-IDIOM %s: endpoint stored under a '
                            'computed key: %s' % (f.where, short(n)))
                    out.append((const(t.value.slice), a, n.value, n))
    return out


def r16_8(prog, rep, rid='R16.8'):
    rep.rule(rid, 'the proxy advertises, for each of its channels, the '
             'addr_pub / addr_sub endpoints of the bridge it created for '
             'THAT channel (the table every side wires its forwarders from)',
             minimum=4)
    f = prog.method(PROXY[0], PROXY[1], '_worker')
    rep.saw(f)
    bridges = _bridges_of(prog, f)
    need = []
    for nm in ('PROXY_CONTROL_PUBSUB', 'PROXY_STATE_PUBSUB'):
        v = prog.const(CONST, nm)
        if not isinstance(v, str):
            raise AnalysisError('anchor constants.%s not found' % nm)
        need.append(v.lower())
    have = {c for c, _ in bridges.values()}
    for ch in need:
        if ch not in have:
            raise AnalysisError('UNRECOGNISED-IDIOM %s: no bridge is created '
                                'for channel %s' % (f.where, ch))
    by_channel = {}
    for nm, (ch, call) in bridges.items():
        by_channel.setdefault(ch, set()).add(nm)
    entries = _advertised(prog, f, bridges)
    seen = set()
    for ch, key, val, node in entries:
        if not key.startswith('addr_'):
            continue
        e = _local_value(f, val, bridges)
        if not (isinstance(e, ast.Attribute) and isinstance(e.value, ast.Name)
                and e.value.id in bridges):
            raise AnalysisError(
                'UNRECOGNISED-IDIOM %s: the %s endpoint advertised for %s is '
                'not an attribute of a bridge created here: %s'
                % (f.where, key, ch, short(val)))
        got_ch, got_key = bridges[e.value.id][0], e.attr
        seen.add((ch, key))
        kind = 'state' if 'state' in ch else 'control' \
            if 'control' in ch else ch
        if got_ch != ch:
            why = ('it is the %s endpoint of the bridge created for %s'
                   % (got_key, got_ch))
        else:
            why = 'it is the %s endpoint of that bridge' % got_key
        if key in ('addr_sub', 'addr_get'):
            cons = ('every side sends forwarded %s messages to the %s bridge '
                    'but listens for them at %s.%s, where they never show up: '
                    'they reach no other side' % (kind, ch, got_ch, got_key))
        else:
            cons = ('every side listens on the %s bridge but sends forwarded '
                    '%s messages to %s.%s: they reach no other side'
                    % (ch, kind, got_ch, got_key))
        rep.check(got_ch == ch and got_key == key, rid, f,
                  '%s.%s is the %s of the bridge created for %s'
                  % (ch, key, key, ch), construct='%s.%s' % (ch, key),
                  message='%s: the table reported to the sessions advertises '
                  '%s as `%s` of channel %s, but %s; %s'
                  % (f.qual, unparse(e), key, ch, why, cons),
                  loc=f.loc(val),
                  history="one client, one pilot: a component publishes "
                  "{'cmd': ..., 'fwd': True} on its %s pubsub; %s: delivered "
                  "0 times on the other side (expected 1)" % (kind, cons))
    for ch in need:
        for key in ('addr_pub', 'addr_sub'):
            if (ch, key) not in seen:
                raise AnalysisError(
                    'UNRECOGNISED-IDIOM %s: no `%s` endpoint is advertised '
                    'for %s in a form the rule recognises' % (f.where, key,
                                                              ch))


# ------------------------------------------------------------------------------
# R16.9  the protocol items of a new message that must travel do not depend on
#        the journey of the message it is built from
#
# `fwd` and `origin` are journey markers: the forwarders rewrite them on the
# way (the local -> proxy forwarder stamps the origin and - today - clears the
# flag).  A message that has to reach the other sides (RPC request / reply) and
# that is constructed FROM a received message (the reply from its request)
# must therefore get its own markers from the class defaults or from constants
# named at the construction site.  Decided by value: the constructor of the
# class (an `__init__` of the package, if there is one; then ru.TypedDict:
# defaults, from_dict, keywords - in this order) is interpreted for the request
# as a subscriber sees it (a) on the side where it was published and (b) on
# another side, i.e. after the two forwarders (evaluated, not assumed) have
# handled it; the resulting items are given to the local -> proxy forwarder,
# which must put the message on the proxy channel exactly once.
#
MUST_TRAVEL = ('RPCRequestMessage', 'RPCResultMessage')


def _put_flags(outs):
    """values of the forward flag of the one message put, over all switch
    assignments; None if some path does not put exactly one message"""
    if not outs:
        return None
    vals = set()
    for sw, eff in outs:
        puts = [e for e in eff if e[0] == 'put']
        if len(puts) != 1 or len(eff) != 1:
            return None
        vals.add(bool(puts[0][3]))
    return vals


def arriving_requests(prog, fwd, pubvar, m0):
    """[(where, {protocol items})]: a message constructed with the protocol
    items m0 as a component that subscribes to the channel receives it - on
    the publishing side (no forwarder touches that copy) and on another side
    (stamped by the local -> proxy forwarder of the publisher, passed on by
    the proxy -> local forwarder of the receiver).  The second entry is
    missing if the forwarders do not deliver it / are not decided (R16.1 and
    R16.6 report that)."""
    out = [('on the side where it was published', dict(m0))]
    f1 = _put_flags(outcomes_by_value(prog, fwd, pubvar, False, dict(m0)))
    if f1 is None:
        return out
    for a in sorted(f1):
        f2 = _put_flags(outcomes_by_value(
            prog, fwd, pubvar, True, {'origin': 'OTHER', 'fwd': a}))
        if f2 is None:
            return out[:1]
        for b in sorted(f2):
            m = ('on another side (after the local -> proxy and the proxy -> '
                 'local forwarder)', {'origin': 'OTHER', 'fwd': b})
            if m not in out:
                out.append(m)
    return out


def _package_init(prog, k):
    for c in prog.mro(k):
        f = c.methods.get('__init__')
        if f is not None:
            return f
    return None


def constructed_items(prog, k, site, call, bound):
    """set of frozenset({protocol key: value}) - one per feasible path - of
    the instance of message class `k` that `call` (in function / module
    `site`) constructs when the names in `bound` ({name: dict}) hold these
    messages; a value is UNK where it is not decided"""
    defaults = {key: v[0] for key, v in class_defaults(prog, k).items()}
    init = _package_init(prog, k)
    ip = Interp(prog, k)
    senv = {}
    for nm, m in bound.items():
        senv[nm] = dict(m)
        for key in m:
            if isinstance(key, str) and key.isidentifier():
                senv['%s.%s' % (nm, key)] = m[key]

    class _Mod:             # module level construction site
        params = ()
        cls = None

    sf = site if hasattr(site, 'params') else _Mod()
    if not hasattr(sf, 'module'):
        sf.module = site

    def items_of(from_dict, kws):
        m = dict(defaults)
        for layer in (from_dict, kws):
            if layer is None:
                continue
            if not isinstance(layer, dict):
                # not decided what it holds
                for key in TAG_KEYS:
                    m[key] = UNK
                continue
            for key in TAG_KEYS:
                if key in layer:
                    m[key] = layer[key]
        return m

    def kw_dict(fn, c, env, named=()):
        out = {}
        for kw in c.keywords:
            if kw.arg is None:
                v = ip.ev(fn, kw.value, env)
                if not isinstance(v, dict):
                    return UNK
                out.update(v)
            elif kw.arg not in named:
                out[kw.arg] = ip.ev(fn, kw.value, env)
        return out

    if any(isinstance(a, ast.Starred) for a in call.args):
        return {frozenset((key, UNK) for key in TAG_KEYS)}
    if init is None:
        fd = ip.ev(sf, call.args[0], senv) if call.args else None
        kws = kw_dict(sf, call, senv, ('from_dict',))
        e = kwarg(call, 'from_dict')
        if e is not None and not call.args:
            fd = ip.ev(sf, e, senv)
        return {frozenset(items_of(fd, kws).items())}

    cenv = ip._bind(sf, call, init, senv)
    a = init.node.args
    names = [x.arg for x in a.posonlyargs + a.args + a.kwonlyargs]
    if a.kwarg:
        cenv[a.kwarg.arg] = kw_dict(sf, call, senv, names)
    for p, v in list(cenv.items()):
        if isinstance(v, dict):
            for key in v:
                if isinstance(key, str) and key.isidentifier():
                    cenv['%s.%s' % (p, key)] = v[key]
    seen = []

    def observe(fn, node, env):
        if fn is not init or node.kind != 'stmt' or node.ast is None:
            return
        for c in calls_in(node.ast):
            cn = call_name(c)
            if not cn.endswith('.__init__'):
                continue
            args = list(c.args)
            if not cn.startswith('super()'):
                args = args[1:]                 # Base.__init__(self, ..)
            if any(isinstance(x, ast.Starred) for x in args):
                seen.append((UNK, UNK))
                continue
            fd = ip.ev(fn, args[0], env) if args else None
            e = kwarg(c, 'from_dict')
            if e is not None and not args:
                fd = ip.ev(fn, e, env)
            seen.append((fd, kw_dict(fn, c, env, ('from_dict',))))
    ip.observe = observe
    exits = ip.run(init, cenv)
    if not seen or not exits:
        raise AnalysisError('UNRECOGNISED-IDIOM %s: no call of the base class '
                            'constructor found: what a new %s holds is not '
                            'decided' % (init.where, k.name))
    # items stored into the instance by the constructor itself
    late = []
    for fe in exits:
        env = dict(fe)
        d = {}
        for key in TAG_KEYS:
            for spelled in ("self[%r]" % key, 'self.%s' % key):
                if spelled in env:
                    d[key] = thaw(env[spelled])
        if d not in late:
            late.append(d)
    out = set()
    for fd, kws in seen:
        for d in late:
            m = items_of(fd, kws)
            m.update(d)
            out.add(frozenset(m.items()))
    return out


def _message_sites(prog, k):
    """[(module, enclosing FuncInfo | None, call)] constructing class k"""
    out = []
    for m in prog.modules.values():
        if k.name not in m.src:
            continue
        funcs = {}

        def enter(f):
            for c in calls_in(f.node):
                funcs[id(c)] = f                # (the innermost function)
            for g in f.nested.values():
                enter(g)
        for f in list(m.funcs.values()) + [
                f for kk in m.classes.values() for f in kk.methods.values()]:
            enter(f)
        for c in calls_in(m.tree, nested=True):
            r = prog.resolve(m, c.func) if isinstance(
                c.func, (ast.Name, ast.Attribute)) else None
            if r and r[0] == 'class' and r[1] is k:
                out.append((m, funcs.get(id(c)), c))
    return out


def r16_9(prog, rep, rid='R16.9'):
    rep.rule(rid, 'an RPC request / reply gets its protocol items (fwd, '
             'origin) from the class defaults or from constants: built from '
             'a received message (the reply from its request) - on the side '
             'where that was published or on another side, i.e. after the '
             'forwarders rewrote its items - it is put on the proxy channel '
             'by the local -> proxy forwarder all the same', minimum=3)
    cw, fwd, sub, pub, pubvar = forwarder(prog)
    reqk = prog.cls(MSGS, MUST_TRAVEL[0])
    m0 = {key: v[0] for key, v in class_defaults(prog, reqk).items()}
    arriving = None
    for cname in MUST_TRAVEL:
        k = prog.cls(MSGS, cname)
        rep.saw(k)
        init = _package_init(prog, k)
        if init is not None:
            rep.saw(init)
        dflt = {key: v[0] for key, v in class_defaults(prog, k).items()}
        for m, f, c in _message_sites(prog, k):
            site = f if f is not None else m
            where = f if f is not None else m.rel
            loc = 'src/radical/pilot/%s:%d' % (m.rel, c.lineno)
            what = 'the protocol items of the new %s do not depend on the ' \
                   'message it is built from' % cname
            free = constructed_items(prog, k, site, c, {})
            named = {key for key in TAG_KEYS if kwarg(c, key) is not None}
            if all(v is not UNK for s in free for _, v in s):
                # constants: the constructor may still override the default
                # (the items named at the site are decided by R16.3)
                wrong = [dict(s) for s in free
                         if any(v != dflt.get(key, '<absent>')
                                for key, v in s if key not in named)]
                if not wrong:
                    rep.ok(rid, where, what, loc)
                    continue
                cases = [('whatever it is built from', s) for s in wrong]
            else:
                # the items depend on an argument: on which message?
                params = set(f.params) - {'self', 'cls'} if f is not None \
                    else set()
                roots = sorted({n.id for x in list(c.args) +
                                [kw.value for kw in c.keywords]
                                for n in ast.walk(x)
                                if isinstance(n, ast.Name) and n.id in params})
                if arriving is None:
                    arriving = arriving_requests(prog, fwd, pubvar, m0)
                cases = []
                for label, req in arriving:
                    msg = dict(req, uid='rpc.0000')
                    got = constructed_items(prog, k, site, c,
                                            {nm: msg for nm in roots})
                    if any(v is UNK for s in got for _, v in s):
                        raise AnalysisError(
                            'UNRECOGNISED-IDIOM %s: the protocol items of '
                            'the %s constructed at %s depend on its '
                            'arguments in a way that is not decided'
                            % (where if isinstance(where, str) else
                               where.where, cname, loc))
                    cases += [('from a request received %s [%s]' % (
                        label, ', '.join('%r: %r' % kv for kv in
                                         sorted(req.items()))), dict(s))
                              for s in got]
            problem = None
            for label, items in cases:
                items = {key: v for key, v in items.items()}
                outs = outcomes_by_value(prog, fwd, pubvar, False, items)
                if outs is None:
                    raise AnalysisError(
                        'UNRECOGNISED-IDIOM %s: what the forwarder does with '
                        'a message holding %r is not decided'
                        % (fwd.where, items))
                for sw, eff in sorted(outs, key=repr):
                    pr = judge(eff, False, True)
                    if pr is not None:
                        problem = (label, items, pr)
                        break
                if problem:
                    break
            if problem is None:
                rep.ok(rid, where, what, loc)
                continue
            label, items, pr = problem
            shown = ', '.join('%r: %r' % kv for kv in sorted(items.items()))
            src = '%s.__init__' % init.cls.name if init is not None and \
                not named else 'the construction site'
            kind = 'reply' if 'Result' in cname else 'request'
            rep.bad(rid, where, '%s:items' % cname,
                    '%s: the %s constructed here %s holds {%s} (set by %s, '
                    'class defaults {%s}): at the local -> proxy forwarder '
                    '(%s) %s - the forwarders rewrite fwd / origin of every '
                    'message they pass on, so items copied from a received '
                    'message describe the journey of THAT message; the RPC '
                    '%s never reaches the side that waits for it'
                    % (where if isinstance(where, str) else where.where,
                       cname, label, shown, src,
                       ', '.join('%r: %r' % kv for kv in sorted(dflt.items())),
                       fwd.qual, pr, kind),
                    loc=loc,
                    history='rpc() is called on side A (client) for a '
                    'handler registered on side B (a pilot): the request '
                    'crosses the proxy (origin stamped A, forward flag '
                    'rewritten by the forwarder of A); the %s built on B %s '
                    'is published with {%s} and is not forwarded: 0 '
                    'deliveries on A (expected 1), rpc() never returns'
                    % (kind, label, shown))


# ------------------------------------------------------------------------------
#
def run(prog, rep, tier):
    rep.decided = ('the forwarder callback of Session.crosswire_pubsub '
        'implements the specification table for all 12 combinations of '
        '(direction, origin tag present, origin own, forward flag): tag '
        'untagged messages, proxy->local publishes exactly the messages of '
        'other sides, local->proxy publishes exactly own messages with the '
        'forward flag, one put of the received message on the target topic; '
        'the forwarder subscribes on src / publishes on tgt; control and '
        'state pubsub are wired to their PROXY_ twins in both directions '
        'with from_proxy true exactly on the PROXY_ source; the side '
        'identity is written once; it differs between the agent_0 sessions '
        'of two pilots and from the identity of the primary session (value '
        'interpretation of Session.__init__ per role and side); on every '
        'path through the construction of a primary / agent_0 session each '
        'directed (pubsub, PROXY_ twin) pair is wired exactly once, sessions '
        'of every other role wire nothing, nobody outside Session wires '
        'these pairs; default forward flags of advance() and the forward '
        'flag of cancel requests; the callback is analysed with the calls of '
        'sibling closures of the wiring method (a predicate per direction, '
        'selected under tests of never re-bound parameters) inlined; a new '
        'instance of every typed message class of messages.py (defaults '
        'merged along the bases) is handled by the local -> proxy forwarder '
        'like the dict message with the same forward flag and no origin tag '
        '(R16.6); the class declaring the fwd item defaults it to false, RPC '
        'requests / replies are constructed with fwd true; every comparison '
        'of the origin tag that the decision to publish depends on has the '
        'same source as the value stamped into untagged messages (R16.7); '
        'the endpoint table Proxy._worker reports to the sessions gives, for '
        'each proxy channel, the addr_* endpoints of the bridge created for '
        'that channel, each under its own key (R16.8); an RPC request / '
        'reply constructed (class constructor of messages.py interpreted by '
        'value, then ru.TypedDict: defaults, from_dict, keywords) from a '
        'request as it arrives on the publishing side or, rewritten by the '
        'two forwarders, on another side holds protocol items with which '
        'the local -> proxy forwarder puts it on the proxy channel (R16.9); '
        'when the flag of the update message depends on the target state, '
        'it is decided per state (R16.3).')
    rep.undecided = ('delivery by the zmq bridges and the proxy (trusted); '
        'that the pilot ids handed to the agents differ; which other messages should '
        'carry the forward flag (policy, listed as information in the '
        'thorough tier).')
    rep.assumptions = [
        'zmq Publisher/Subscriber deliver what they are given, once, to every '
        'subscriber of the channel',
        'tests of the forwarder that mention neither the message nor '
        'from_proxy (log level switches) do not influence the outcome: both '
        'branches are followed and must agree',
        'PROXY_<X> names the proxy twin of channel <X> in constants.py',
        'RP_PILOT_ID is exported with the pilot id in the environment of '
        'every agent process (bootstrap_0.sh) and is not set in the client '
        'application; cfg.pid of an agent session is the pilot id; the '
        'session id is the same on all sides',
        'per side there is one primary (client) resp. one agent_0 (pilot) '
        'session and any number of agent_n / client / default sessions, all '
        'using the bridges and the identity of their side',
        'ru.TypedDict (radical.utils, outside the analysed tree) merges the '
        '`_defaults` tables of the base classes into every subclass and '
        'copies them into each new instance: a defaulted key is present in '
        'every message of the class',
        'nothing but a forwarder publishes on a PROXY_ channel: the first '
        'forwarder a new message meets is a local -> proxy one',
        'the attributes addr_pub / addr_sub (addr_put / addr_get) of a '
        'ru.zmq bridge are the endpoints publishers / subscribers of its '
        'channel connect to; the table returned by the proxy for register / '
        'lookup is copied unchanged into the registry (Session._publish_cfg)',
        'two attributes of the session with different writers hold '
        'different values (the session id, the role ... are not the side '
        'identity)',
        'ru.TypedDict.__init__(from_dict, **kwargs) fills a new message '
        'with the class defaults, then from_dict, then the keywords; a '
        'parameter handed to the constructor of a reply, from which the '
        'constructor reads fwd / origin, is a message that was received '
        'from the pubsub (the request)',
        'clearing the forward flag before the put is defence in depth (the '
        'origin test alone prevents re-forwarding) and reported as '
        'information only',
    ]
    rep.attempt(r16_1, prog, rep)
    rep.attempt(r16_2, prog, rep)
    rep.attempt(r16_3, prog, rep, tier=tier)
    rep.attempt(r16_6, prog, rep)
    rep.attempt(r16_7, prog, rep)
    rep.attempt(r16_8, prog, rep)
    rep.attempt(r16_9, prog, rep)
    sides = rep.attempt(_side_runs, prog, rep)
    if sides is not None:
        rep.attempt(r16_4, prog, rep, sides)
        rep.attempt(r16_5, prog, rep, sides)


# ------------------------------------------------------------------------------
# self-test variants
#
_S = 'session.py'
_C = 'utils/component.py'
_T = 'task_manager.py'
_P = 'pilot_manager.py'

_TAG = "            if 'origin' not in msg:\n                msg['origin'] = self._module\n"

MUTATIONS = [
    dict(name='R16.1 proxy->local origin test inverted', rules=('R16.1',), edits=[
        (_S, "                if msg['origin'] == self._module:\n                    if LOG_ENABLED:\n                        self._log.debug_9('XXX >=! fwd",
             "                if msg['origin'] != self._module:\n                    if LOG_ENABLED:\n                        self._log.debug_9('XXX >=! fwd")]),
    dict(name='R16.1 proxy->local publishes everything', rules=('R16.1',), edits=[
        (_S, "                if msg['origin'] == self._module:\n                    if LOG_ENABLED:\n                        self._log.debug_9('XXX >=! fwd %s to topic:%s: %s',\n                                          src, tgt, msg)\n                    return\n",
             "")]),
    dict(name='R16.1 local->proxy ignores the forward flag', rules=('R16.1',), edits=[
        (_S, "                if not msg.get('fwd'):\n                    if LOG_ENABLED:\n                        self._log.debug_9('XXX =>! fwd %s to %s: %s [%s - %s]',\n                                          src, tgt, msg, msg['origin'],\n                                          self._module)\n                    return\n",
             "")]),
    dict(name='R16.1 local->proxy forward test inverted', rules=('R16.1',), edits=[
        (_S, "                if not msg.get('fwd'):", "                if msg.get('fwd'):")]),
    dict(name='R16.1 local->proxy origin test inverted', rules=('R16.1',), edits=[
        (_S, "                if not msg['origin'] == self._module:", "                if msg['origin'] == self._module:")]),
    dict(name='R16.1 local->proxy origin test dropped', rules=('R16.1',), edits=[
        (_S, "                if not msg['origin'] == self._module:\n                    if LOG_ENABLED:\n                        self._log.debug_9('XXX =>| fwd %s to topic:%s: %s',\n                                          src, tgt, msg)\n                    return\n",
             "")]),
    dict(name='R16.1 untagged messages are not tagged', rules=('R16.1',), edits=[
        (_S, _TAG, "")]),
    dict(name='R16.1 every message is re-tagged as own', rules=('R16.1',), edits=[
        (_S, _TAG, "            msg['origin'] = self._module\n")]),
    dict(name='R16.1 direction branches swapped', rules=('R16.1',), edits=[
        (_S, "            if from_proxy:\n\n                # all messages", "            if not from_proxy:\n\n                # all messages")]),
    dict(name='R16.1 message put twice on the proxy channel', rules=('R16.1',), edits=[
        (_S, "                msg['fwd'] = False\n", "                msg['fwd'] = False\n                publisher.put(tgt, msg)\n")]),
    dict(name='R16.1 forwarded on the source topic', rules=('R16.1',), edits=[
        (_S, "                                      src, tgt, msg)\n                publisher.put(tgt, msg)\n\n            else:",
             "                                      src, tgt, msg)\n                publisher.put(src, msg)\n\n            else:")]),
    dict(name='R16.1 tagging only on the way to the proxy', rules=('R16.1',), edits=[
        (_S, _TAG, ""),
        (_S, "                # only forward messages which have the respective flag set\n",
             "                if 'origin' not in msg:\n                    msg['origin'] = self._module\n")]),
    dict(name='R16.1 seed C16-a: own-origin guard moved under the log switch', rules=('R16.1',), edits=[
        (_S, "                if msg['origin'] == self._module:\n                    if LOG_ENABLED:\n                        self._log.debug_9('XXX >=! fwd %s to topic:%s: %s',\n                                          src, tgt, msg)\n                    return\n\n                if LOG_ENABLED:\n                    self._log.debug_9('XXX >=> fwd %s to topic:%s: %s',\n                                      src, tgt, msg)\n                publisher.put(tgt, msg)\n",
             "                if LOG_ENABLED:\n                    if msg['origin'] == self._module:\n                        self._log.debug_9('XXX >=! fwd %s to topic:%s: %s',\n                                          src, tgt, msg)\n                        return\n\n                    self._log.debug_9('XXX >=> fwd %s to topic:%s: %s',\n                                      src, tgt, msg)\n                publisher.put(tgt, msg)\n")]),
    dict(name='R16.1 forward-flag guard only active with logging enabled', rules=('R16.1',), edits=[
        (_S, "                if not msg.get('fwd'):\n                    if LOG_ENABLED:\n                        self._log.debug_9('XXX =>! fwd %s to %s: %s [%s - %s]',\n                                          src, tgt, msg, msg['origin'],\n                                          self._module)\n                    return\n",
             "                if LOG_ENABLED and not msg.get('fwd'):\n                    self._log.debug_9('XXX =>! fwd %s to %s: %s [%s - %s]',\n                                      src, tgt, msg, msg['origin'],\n                                      self._module)\n                    return\n")]),
    dict(name='R16.1 put on the proxy channel skipped while logging is on', rules=('R16.1',), edits=[
        (_S, "                if LOG_ENABLED:\n                    self._log.debug_3('XXX =>> fwd %s to topic:%s: %s',\n                                      src, tgt, msg)\n                publisher.put(tgt, msg)\n",
             "                if LOG_ENABLED:\n                    self._log.debug_3('XXX =>> fwd %s to topic:%s: %s',\n                                      src, tgt, msg)\n                else:\n                    publisher.put(tgt, msg)\n")]),
    dict(name='R16.2 state pubsub wired with swapped from_proxy', rules=('R16.2',), edits=[
        (_S, "                              tgt=rpc.PROXY_STATE_PUBSUB,\n                              from_proxy=False)",
             "                              tgt=rpc.PROXY_STATE_PUBSUB,\n                              from_proxy=True)")]),
    dict(name='R16.2 proxy state channel forwarded to the control pubsub', rules=('R16.2',), edits=[
        (_S, "        self.crosswire_pubsub(src=rpc.PROXY_STATE_PUBSUB,\n                              tgt=rpc.STATE_PUBSUB,",
             "        self.crosswire_pubsub(src=rpc.PROXY_STATE_PUBSUB,\n                              tgt=rpc.CONTROL_PUBSUB,")]),
    dict(name='R16.2 return path of the control channel missing', rules=('R16.2',), edits=[
        (_S, "        self.crosswire_pubsub(src=rpc.PROXY_CONTROL_PUBSUB,\n                              tgt=rpc.CONTROL_PUBSUB,\n                              from_proxy=True)\n",
             "        self.crosswire_pubsub(src=rpc.STATE_PUBSUB,\n                              tgt=rpc.PROXY_STATE_PUBSUB,\n                              from_proxy=False)\n"),
        ]),
    dict(name='R16.2 forwarder subscribes on the target channel', rules=('R16.2',), edits=[
        (_S, "        sub = ru.zmq.Subscriber(channel=src, topic=src, path=path,", "        sub = ru.zmq.Subscriber(channel=tgt, topic=tgt, path=path,")]),
    dict(name='R16.2 subscriber uses the publisher address', rules=('R16.2',), edits=[
        (_S, "        url_sub = reg['bridges.%s.addr_sub' % src.lower()]", "        url_sub = reg['bridges.%s.addr_pub' % src.lower()]")]),
    dict(name='R16.2 side identity re-derived on reconnect', rules=('R16.2',), edits=[
        (_S, "        assert self._role == self._AGENT_0\n\n        # make sure we have a proxy address to use",
             "        assert self._role == self._AGENT_0\n        self._module = self._uid\n\n        # make sure we have a proxy address to use")]),
    dict(name='R16.3 agent advances not forwarded by default', rules=('R16.3',), edits=[
        (_C, "    # agent side state advances are forwarded by default (fwd=True)\n    def advance(self, things, state=None, publish=True, push=False, qname=None,\n                      ts=None, fwd=True, prof=True):",
             "    # agent side state advances are forwarded by default (fwd=True)\n    def advance(self, things, state=None, publish=True, push=False, qname=None,\n                      ts=None, fwd=False, prof=True):")]),
    dict(name='R16.3 client advances forwarded by default', rules=('R16.3',), edits=[
        (_C, "    # client side state advances are *not* forwarded by default (fwd=False)\n    def advance(self, things, state=None, publish=True, push=False, qname=None,\n                      ts=None, fwd=False, prof=True):",
             "    # client side state advances are *not* forwarded by default (fwd=False)\n    def advance(self, things, state=None, publish=True, push=False, qname=None,\n                      ts=None, fwd=True, prof=True):")]),
    dict(name='R16.3 update message without forward flag', rules=('R16.3',), edits=[
        (_C, "                                            'arg': to_publish,\n                                            'fwd': fwd})",
             "                                            'arg': to_publish})")]),
    dict(name='R16.3 agent advance drops the flag on the way up', rules=('R16.3',), edits=[
        (_C, "            publish = True\n            push    = False\n\n        super().advance(things=things, state=state, publish=publish, push=push,\n                        qname=qname, ts=ts, fwd=fwd, prof=prof)\n\n\n# ------------------------------------------------------------------------------\n#\nclass AgentComponent",
             "            publish = True\n            push    = False\n\n        super().advance(things=things, state=state, publish=publish, push=push,\n                        qname=qname, ts=ts, fwd=fwd, prof=prof)\n\n\n# ------------------------------------------------------------------------------\n#\nclass AgentComponent"),
        (_C, "                thing['$all']         = True\n", "                thing['$all']         = True\n                fwd = False\n")],
         note='final states decided on the agent are no longer forwarded'),
    dict(name='R16.3 cancel_tasks stays on the client', rules=('R16.3',), edits=[
        (_T, "                                                   'tmgr' : self.uid},\n                                          'fwd' : True})",
             "                                                   'tmgr' : self.uid},\n                                          'fwd' : False})")]),
    dict(name='R16.3 cancel_pilots without forward flag', rules=('R16.3',), edits=[
        (_P, "                                                   'uids' : uids},\n                                          'fwd' : True})",
             "                                                   'uids' : uids}})")]),
]

SILENT = [
    dict(name='tagging with setdefault', edits=[
        (_S, _TAG, "            msg.setdefault('origin', self._module)\n")]),
    dict(name='proxy->local rule in positive form', edits=[
        (_S, "                if msg['origin'] == self._module:\n                    if LOG_ENABLED:\n                        self._log.debug_9('XXX >=! fwd %s to topic:%s: %s',\n                                          src, tgt, msg)\n                    return\n\n                if LOG_ENABLED:\n                    self._log.debug_9('XXX >=> fwd %s to topic:%s: %s',\n                                      src, tgt, msg)\n                publisher.put(tgt, msg)\n",
             "                if msg['origin'] != self._module:\n                    publisher.put(tgt, msg)\n")]),
    dict(name='local->proxy rule as one conjunction', edits=[
        (_S, "                if not msg.get('fwd'):\n                    if LOG_ENABLED:\n                        self._log.debug_9('XXX =>! fwd %s to %s: %s [%s - %s]',\n                                          src, tgt, msg, msg['origin'],\n                                          self._module)\n                    return\n\n                # only forward all messages which originated in *this* module.\n                if not msg['origin'] == self._module:\n                    if LOG_ENABLED:\n                        self._log.debug_9('XXX =>| fwd %s to topic:%s: %s',\n                                          src, tgt, msg)\n                    return\n",
             "                if not (msg.get('fwd') and self._module == msg['origin']):\n                    return\n")]),
    dict(name='origin test before the forward test', edits=[
        (_S, "                if not msg.get('fwd'):\n                    if LOG_ENABLED:\n                        self._log.debug_9('XXX =>! fwd %s to %s: %s [%s - %s]',\n                                          src, tgt, msg, msg['origin'],\n                                          self._module)\n                    return\n",
             "                if msg['origin'] != self._module:\n                    return\n\n                if not msg.get('fwd', False):\n                    return\n")]),
    dict(name='forward flag not cleared (defence in depth only)', edits=[
        (_S, "                msg['fwd'] = False\n", "")]),
    dict(name='log lines of the proxy->local branch regrouped, guards untouched', edits=[
        (_S, "                if msg['origin'] == self._module:\n                    if LOG_ENABLED:\n                        self._log.debug_9('XXX >=! fwd %s to topic:%s: %s',\n                                          src, tgt, msg)\n                    return\n\n                if LOG_ENABLED:\n                    self._log.debug_9('XXX >=> fwd %s to topic:%s: %s',\n                                      src, tgt, msg)\n                publisher.put(tgt, msg)\n",
             "                own = msg['origin'] == self._module\n                if LOG_ENABLED:\n                    if own:\n                        self._log.debug_9('XXX >=! fwd %s to topic:%s: %s',\n                                          src, tgt, msg)\n                    else:\n                        self._log.debug_9('XXX >=> fwd %s to topic:%s: %s',\n                                          src, tgt, msg)\n                if msg['origin'] == self._module:\n                    return\n                publisher.put(tgt, msg)\n")]),
    dict(name='log switch replaced by a logger level query', edits=[
        (_S, "                if LOG_ENABLED:\n                    self._log.debug_3('XXX =>> fwd %s to topic:%s: %s',\n                                      src, tgt, msg)\n                publisher.put(tgt, msg)\n",
             "                if self._log.isEnabledFor(10):\n                    self._log.debug_3('XXX =>> fwd %s to topic:%s: %s',\n                                      src, tgt, msg)\n                publisher.put(tgt, msg)\n")]),
    dict(name='wiring with positional arguments, other order', edits=[
        (_S, "        self.crosswire_pubsub(src=rpc.CONTROL_PUBSUB,\n                              tgt=rpc.PROXY_CONTROL_PUBSUB,\n                              from_proxy=False)\n        self.crosswire_pubsub(src=rpc.PROXY_CONTROL_PUBSUB,\n                              tgt=rpc.CONTROL_PUBSUB,\n                              from_proxy=True)\n",
             "        self.crosswire_pubsub(rpc.PROXY_CONTROL_PUBSUB, rpc.CONTROL_PUBSUB, True)\n        self.crosswire_pubsub(rpc.CONTROL_PUBSUB, rpc.PROXY_CONTROL_PUBSUB,\n                              from_proxy=False)\n")]),
    dict(name='agent advance calls the base positionally', edits=[
        (_C, "                thing['$all']         = True\n", "                thing['$all']         = True\n"),
        (_C, "            publish = True\n            push    = False\n\n        super().advance(things=things, state=state, publish=publish, push=push,\n                        qname=qname, ts=ts, fwd=fwd, prof=prof)\n\n\n# ------------------------------------------------------------------------------\n#\nclass AgentComponent",
             "            publish = True\n            push    = False\n\n        super().advance(things, state, publish, push, qname, ts, fwd, prof)\n\n\n# ------------------------------------------------------------------------------\n#\nclass AgentComponent")]),
    dict(name='cancel request built in a local first', edits=[
        (_T, "        self.publish(rpc.CONTROL_PUBSUB, {'cmd' : 'cancel_tasks',\n                                          'arg' : {'uids' : uids,\n                                                   'tmgr' : self.uid},\n                                          'fwd' : True})",
             "        req = {'cmd' : 'cancel_tasks',\n               'fwd' : True,\n               'arg' : {'uids' : uids, 'tmgr' : self.uid}}\n        self.publish(rpc.CONTROL_PUBSUB, req)")]),
]

# ------------------------------------------------------------------------------
# R16.4 / R16.5 variants
#
_MOD = "        self._module = os.environ.get('RP_PILOT_ID', 'client')\n"
_ROLE_ASSERT = "        assert self._role in [self._PRIMARY, self._AGENT_0]\n\n        self.crosswire_pubsub(src=rpc.CONTROL_PUBSUB,"
_ROLE_ASSERT_N = "        assert self._role in [self._PRIMARY, self._AGENT_0, self._AGENT_N]\n\n        self.crosswire_pubsub(src=rpc.CONTROL_PUBSUB,"
_A0_WIRE = "        self._start_components()\n        self._crosswire_proxy()\n\n        self._reg.dump(self._role)\n"
_AN_TAIL = "        self._cfg.components = ru.Config(cfg=a_cfg.get('components', {}))\n\n        self._start_components()\n"
_HELPER_AT = "    # ----------------------------------------------------------------------\n    def crosswire_pubsub(self, src, tgt, from_proxy):\n"

MUTATIONS += [
    dict(name='R16.4 seed C16-c: side identity derived from the session role', rules=('R16.4',), edits=[
        (_S, _MOD, "        if self._role in [self._AGENT_0, self._AGENT_N]:\n            self._module = 'agent'\n        else:\n            self._module = 'client'\n")]),
    dict(name='R16.4 side identity is a conditional expression over the role', rules=('R16.4',), edits=[
        (_S, _MOD, "        self._module = 'client' if self._role == self._PRIMARY else 'agent'\n")]),
    dict(name='R16.4 side identity taken from the session id', rules=('R16.4',), edits=[
        (_S, _MOD, "        self._module = self._uid or 'client'\n")]),
    dict(name='R16.4 role derived identity computed in a new helper', rules=('R16.4',), edits=[
        (_S, _MOD, "        self._module = self._module_scope()\n"),
        (_S, _HELPER_AT, "    def _module_scope(self):\n\n        if self._role == self._PRIMARY:\n            return 'client'\n        return 'pilot'\n\n\n" + _HELPER_AT)]),
    dict(name='R16.4 environment only consulted for its presence', rules=('R16.4',), edits=[
        (_S, _MOD, "        self._module = 'pilot' if 'RP_PILOT_ID' in os.environ else 'client'\n")]),
    dict(name='R16.5 seed C16-d: sub-agent sessions also wire the proxy', rules=('R16.5',), edits=[
        (_S, _AN_TAIL, _AN_TAIL + "\n        # components of sub-agents also talk to the client\n        self._crosswire_proxy()\n"),
        (_S, _ROLE_ASSERT, _ROLE_ASSERT_N)]),
    dict(name='R16.5 sub-agent wiring added in the role dispatch of __init__', rules=('R16.5',), edits=[
        (_S, "        elif self._role == self._AGENT_N: self._init_agent_n()\n", "        elif self._role == self._AGENT_N:\n            self._init_agent_n()\n            self._crosswire_proxy()\n"),
        (_S, _ROLE_ASSERT, _ROLE_ASSERT_N)]),
    dict(name='R16.5 component sessions wire the proxy', rules=('R16.5',), edits=[
        (_S, "        assert self._role == self._DEFAULT\n\n        self._connect_registry()\n        self._init_cfg_from_registry()\n",
             "        assert self._role == self._DEFAULT\n\n        self._connect_registry()\n        self._init_cfg_from_registry()\n        self._crosswire_proxy()\n"),
        (_S, _ROLE_ASSERT, "        assert self._role in [self._PRIMARY, self._AGENT_0, self._DEFAULT]\n\n        self.crosswire_pubsub(src=rpc.CONTROL_PUBSUB,")]),
    dict(name='R16.5 agent_0 wires a second time after the registry dump', rules=('R16.5',), edits=[
        (_S, _A0_WIRE, "        self._start_components()\n        self._crosswire_proxy()\n\n        self._reg.dump(self._role)\n        self._crosswire_proxy()\n")]),
    dict(name='R16.5 agent_0 no longer wires the proxy', rules=('R16.5',), edits=[
        (_S, _A0_WIRE, "        self._start_components()\n\n        self._reg.dump(self._role)\n")]),
    dict(name='R16.5 role assertion of the wiring rejects agent_0', rules=('R16.5',), edits=[
        (_S, _ROLE_ASSERT, "        assert self._role == self._PRIMARY\n\n        self.crosswire_pubsub(src=rpc.CONTROL_PUBSUB,")]),
    dict(name='R16.5 pilot manager wires the proxy again', rules=('R16.5',), edits=[
        (_P, "        assert session._role == session._PRIMARY, 'pmgr needs primary session'\n",
             "        assert session._role == session._PRIMARY, 'pmgr needs primary session'\n        session._crosswire_proxy()\n")]),
]

SILENT += [
    dict(name='side identity: environment lookup hoisted into a local', edits=[
        (_S, _MOD, "        pilot_id = os.environ.get('RP_PILOT_ID')\n        self._module = 'client' if pilot_id is None else pilot_id\n")]),
    dict(name='side identity: membership test and subscript', edits=[
        (_S, _MOD, "        if 'RP_PILOT_ID' not in os.environ:\n            self._module = 'client'\n        else:\n            self._module = os.environ['RP_PILOT_ID']\n")]),
    dict(name='side identity: os.getenv', edits=[
        (_S, _MOD, "        self._module = os.getenv('RP_PILOT_ID', default='client')\n")]),
    dict(name='side identity: lookup extracted into a helper method', edits=[
        (_S, _MOD, "        self._module = self._module_scope()\n"),
        (_S, _HELPER_AT, "    def _module_scope(self):\n\n        return os.environ.get('RP_PILOT_ID', 'client')\n\n\n" + _HELPER_AT)]),
    dict(name='side identity: assigned before the registry address is checked', edits=[
        (_S, _MOD, ""),
        (_S, "        if _reg_addr:\n\n            if self._cfg.reg_addr:", _MOD + "\n        if _reg_addr:\n\n            if self._cfg.reg_addr:")]),
    dict(name='wiring: agent_0 wires after the registry dump', edits=[
        (_S, _A0_WIRE, "        self._start_components()\n\n        self._reg.dump(self._role)\n        self._crosswire_proxy()\n")]),
    dict(name='wiring: reached through an extracted helper', edits=[
        (_S, "        # crosswire local channels and proxy channels\n        self._crosswire_proxy()\n", "        self._hook_proxy()\n"),
        (_S, _A0_WIRE, "        self._start_components()\n        self._hook_proxy()\n\n        self._reg.dump(self._role)\n"),
        (_S, _HELPER_AT, "    def _hook_proxy(self):\n\n        # crosswire local channels and proxy channels\n        self._crosswire_proxy()\n\n\n" + _HELPER_AT)]),
    dict(name='wiring: role assertion as a disjunction', edits=[
        (_S, _ROLE_ASSERT, "        assert self._role == self._PRIMARY or self._role == self._AGENT_0\n\n        self.crosswire_pubsub(src=rpc.CONTROL_PUBSUB,")]),
    dict(name='wiring: role guard raises instead of asserting', edits=[
        (_S, _ROLE_ASSERT, "        if self._role not in (self._PRIMARY, self._AGENT_0):\n            raise RuntimeError('no proxy wiring for %s' % self._role)\n\n        self.crosswire_pubsub(src=rpc.CONTROL_PUBSUB,")]),
    dict(name='wiring: role dispatch of __init__ with nested if', edits=[
        (_S, "        if   self._role == self._PRIMARY: self._init_primary()\n        elif self._role == self._AGENT_0: self._init_agent_0()\n        elif self._role == self._AGENT_N: self._init_agent_n()\n        elif self._role == self._CLIENT : self._init_client()\n        else                            : self._init_default()\n",
             "        role = self._role\n        if role in (self._PRIMARY, self._AGENT_0):\n            if role == self._AGENT_0:\n                self._init_agent_0()\n            else:\n                self._init_primary()\n        elif role == self._AGENT_N:\n            self._init_agent_n()\n        elif role == self._CLIENT:\n            self._init_client()\n        else:\n            self._init_default()\n")]),
]


# ------------------------------------------------------------------------------
# R16.6 / closures per wire / table driven wiring
#
_M = 'messages.py'
_BASE_DEF = "    _schema   = {'fwd': bool}\n    _defaults = {'fwd': False}\n"
_BASE_E = "    _schema   = {'fwd'   : bool,\n                 'origin': str}\n    _defaults = {'fwd'   : False,\n                 'origin': None}\n"
_REQ_DEF = "    _defaults = {'fwd'      : True,\n                 'uid'      : None,\n                 'addr'     : None,"
_RES_DEF = "                 'fwd'      : True,\n                 'uid'      : None,\n                 'val'      : None,"
_FWD_TEST = "                if not msg.get('fwd'):\n                    if LOG_ENABLED:\n                        self._log.debug_9('XXX =>! fwd"
_FWD_OLD = "        def pubsub_fwd(topic, msg):\n\n            if 'origin' not in msg:\n                msg['origin'] = self._module\n\n            if from_proxy:\n\n                # all messages *from* the proxy are forwarded - but not the ones\n                # which originated in *this* module in the first place.\n\n                if msg['origin'] == self._module:\n                    if LOG_ENABLED:\n                        self._log.debug_9('XXX >=! fwd %s to topic:%s: %s',\n                                          src, tgt, msg)\n                    return\n\n                if LOG_ENABLED:\n                    self._log.debug_9('XXX >=> fwd %s to topic:%s: %s',\n                                      src, tgt, msg)\n                publisher.put(tgt, msg)\n\n            else:\n\n                # only forward messages which have the respective flag set\n                if not msg.get('fwd'):\n                    if LOG_ENABLED:\n                        self._log.debug_9('XXX =>! fwd %s to %s: %s [%s - %s]',\n                                          src, tgt, msg, msg['origin'],\n                                          self._module)\n                    return\n\n                # only forward all messages which originated in *this* module.\n                if not msg['origin'] == self._module:\n                    if LOG_ENABLED:\n                        self._log.debug_9('XXX =>| fwd %s to topic:%s: %s',\n                                          src, tgt, msg)\n                    return\n\n                self._log.debug_9('XXX =>> fwd %s to topic:%s: %s', src, tgt, msg)\n\n                # avoid message loops (forward only once)\n                msg['fwd'] = False\n\n                if LOG_ENABLED:\n                    self._log.debug_3('XXX =>> fwd %s to topic:%s: %s',\n                                      src, tgt, msg)\n                publisher.put(tgt, msg)\n\n\n"
_FWD_R5 = "        def accept_from_proxy(msg, module, log):\n\n            # all messages *from* the proxy are forwarded - but not the ones\n            # which originated in *this* module in the first place.\n            if msg['origin'] == module:\n                if LOG_ENABLED:\n                    log.debug_9('XXX >=! fwd %s to topic:%s: %s', src, tgt, msg)\n                return False\n\n            if LOG_ENABLED:\n                log.debug_9('XXX >=> fwd %s to topic:%s: %s', src, tgt, msg)\n\n            return True\n\n\n        def accept_to_proxy(msg, module, log):\n\n            # only forward messages which have the respective flag set\n            if not msg.get('fwd'):\n                if LOG_ENABLED:\n                    log.debug_9('XXX =>! fwd %s to %s: %s [%s - %s]',\n                                src, tgt, msg, msg['origin'], module)\n                return False\n\n            # only forward all messages which originated in *this* module.\n            if msg['origin'] != module:\n                if LOG_ENABLED:\n                    log.debug_9('XXX =>| fwd %s to topic:%s: %s', src, tgt, msg)\n                return False\n\n            log.debug_9('XXX =>> fwd %s to topic:%s: %s', src, tgt, msg)\n\n            # avoid message loops (forward only once)\n            msg['fwd'] = False\n\n            if LOG_ENABLED:\n                log.debug_3('XXX =>> fwd %s to topic:%s: %s', src, tgt, msg)\n\n            return True\n\n\n        # the direction of the wire decides which messages may pass\n        if from_proxy: accept = accept_from_proxy\n        else         : accept = accept_to_proxy\n\n        def pubsub_fwd(topic, msg):\n\n            module = self._module\n\n            # messages which pass a forwarder for the first time get marked\n            msg.setdefault('origin', module)\n\n            if accept(msg, module, self._log):\n                publisher.put(tgt, msg)\n\n\n"
_WIRE_OLD = '        self.crosswire_pubsub(src=rpc.CONTROL_PUBSUB,\n                              tgt=rpc.PROXY_CONTROL_PUBSUB,\n                              from_proxy=False)\n        self.crosswire_pubsub(src=rpc.PROXY_CONTROL_PUBSUB,\n                              tgt=rpc.CONTROL_PUBSUB,\n                              from_proxy=True)\n\n        self.crosswire_pubsub(src=rpc.STATE_PUBSUB,\n                              tgt=rpc.PROXY_STATE_PUBSUB,\n                              from_proxy=False)\n        self.crosswire_pubsub(src=rpc.PROXY_STATE_PUBSUB,\n                              tgt=rpc.STATE_PUBSUB,\n                              from_proxy=True)\n\n\n'
_WIRE_R5 = '        wires = [(rpc.CONTROL_PUBSUB, rpc.PROXY_CONTROL_PUBSUB),\n                 (rpc.STATE_PUBSUB,   rpc.PROXY_STATE_PUBSUB  )]\n\n        # each local channel gets wired to its proxy channel, and back\n        for local, proxy in wires:\n            self.crosswire_pubsub(src=local, tgt=proxy, from_proxy=False)\n            self.crosswire_pubsub(src=proxy, tgt=local, from_proxy=True)\n\n\n'
_ACCEPT_SEL = "        if from_proxy: accept = accept_from_proxy\n        else         : accept = accept_to_proxy\n"
_ACCEPT_USE = "            if accept(msg, module, self._log):\n                publisher.put(tgt, msg)\n"

MUTATIONS += [
    dict(name='R16.6 seed C16-e: origin declared in schema and defaults of the typed messages', rules=('R16.6',), edits=[
        (_M, _BASE_DEF, _BASE_E)]),
    dict(name='R16.6 origin defaulted by the RPC request class only', rules=('R16.6',), edits=[
        (_M, _REQ_DEF, _REQ_DEF.replace("'uid'      : None,", "'origin'   : None,\n                 'uid'      : None,"))]),
    dict(name='R16.6 origin defaulted to the identity of the client', rules=('R16.6',), edits=[
        (_M, _BASE_DEF, "    _schema   = {'fwd': bool, 'origin': str}\n    _defaults = dict(fwd=False, origin='client')\n")]),
    dict(name='R16.6 origin defaulted, forwarder tags with setdefault', rules=('R16.6',), edits=[
        (_M, _BASE_DEF, _BASE_E),
        (_S, _TAG, "            msg.setdefault('origin', self._module)\n")]),
    dict(name='R16.6 origin defaulted, forwarder split into closures per wire (seed C16-r5 shape)', rules=('R16.6',), edits=[
        (_M, _BASE_DEF, _BASE_E),
        (_S, _FWD_OLD, _FWD_R5)]),
    dict(name='R16.6 origin defaulted to the empty string, forwarder tests for None', rules=('R16.6',), edits=[
        (_M, _BASE_DEF, _BASE_E.replace("'origin': None", "'origin': ''")),
        (_S, _TAG, "            if msg.get('origin') is None:\n                msg['origin'] = self._module\n")]),
    dict(name='R16.6 forward flag tested for presence: typed messages with fwd=False leave the side', rules=('R16.6',), edits=[
        (_S, _FWD_TEST, _FWD_TEST.replace("if not msg.get('fwd'):", "if 'fwd' not in msg:"))]),
    dict(name='R16.3 typed messages carry the forward flag by default', rules=('R16.3',), edits=[
        (_M, _BASE_DEF, "    _schema   = {'fwd': bool}\n    _defaults = {'fwd': True}\n")]),
    dict(name='R16.3 RPC replies stay on the side of the callee', rules=('R16.3',), edits=[
        (_M, _RES_DEF, _RES_DEF.replace("'fwd'      : True", "'fwd'      : False"))]),
    dict(name='R16.3 RPC request constructed with fwd=False', rules=('R16.3',), edits=[
        (_C, "        rpc_req = RPCRequestMessage(uid=rpc_id, cmd=cmd, addr=rpc_addr,\n                                    args=args, kwargs=kwargs)\n\n        self._rpc_reqs[rpc_id] = {\n                'req': rpc_req,\n                'res': None,\n                'evt': mt.Event(),",
             "        rpc_req = RPCRequestMessage(uid=rpc_id, cmd=cmd, addr=rpc_addr,\n                                    args=args, kwargs=kwargs, fwd=False)\n\n        self._rpc_reqs[rpc_id] = {\n                'req': rpc_req,\n                'res': None,\n                'evt': mt.Event(),")]),
    dict(name='R16.1 closures per wire: predicates selected for the wrong direction', rules=('R16.1',), edits=[
        (_S, _FWD_OLD, _FWD_R5.replace(_ACCEPT_SEL, "        if from_proxy: accept = accept_to_proxy\n        else         : accept = accept_from_proxy\n"))]),
    dict(name='R16.1 closures per wire: one predicate for both directions', rules=('R16.1',), edits=[
        (_S, _FWD_OLD, _FWD_R5.replace(_ACCEPT_SEL, "        accept = accept_to_proxy\n"))]),
    dict(name='R16.1 closures per wire: to-proxy predicate without the origin test', rules=('R16.1',), edits=[
        (_S, _FWD_OLD, _FWD_R5.replace("            if msg['origin'] != module:\n                if LOG_ENABLED:\n                    log.debug_9('XXX =>| fwd %s to topic:%s: %s', src, tgt, msg)\n                return False\n", ""))]),
    dict(name='R16.1 closures per wire: verdict of the predicate inverted', rules=('R16.1',), edits=[
        (_S, _FWD_OLD, _FWD_R5.replace("            if accept(msg, module, self._log):", "            if not accept(msg, module, self._log):"))]),
    dict(name='R16.2 table driven wiring: both directions wired as from_proxy', rules=('R16.2',), edits=[
        (_S, _WIRE_OLD, _WIRE_R5.replace("tgt=proxy, from_proxy=False", "tgt=proxy, from_proxy=True"))]),
    dict(name='R16.2 table driven wiring: state channel paired with the proxy control channel', rules=('R16.2',), edits=[
        (_S, _WIRE_OLD, _WIRE_R5.replace("(rpc.STATE_PUBSUB,   rpc.PROXY_STATE_PUBSUB  )", "(rpc.STATE_PUBSUB,   rpc.PROXY_CONTROL_PUBSUB)"))]),
]

SILENT += [
    dict(name='origin documented in the schema only (no default: the key stays absent)', edits=[
        (_M, _BASE_DEF, "    _schema   = {'fwd'   : bool,\n                 'origin': str}\n    _defaults = {'fwd'   : False}\n")]),
    dict(name='origin defaulted to None and the forwarder tags by value (is None)', edits=[
        (_M, _BASE_DEF, _BASE_E),
        (_S, _TAG, "            if msg.get('origin') is None:\n                msg['origin'] = self._module\n")]),
    dict(name='origin defaulted to None and the forwarder tags by truthiness', edits=[
        (_M, _BASE_DEF, _BASE_E),
        (_S, _TAG, "            if not msg.get('origin'):\n                msg['origin'] = self._module\n")]),
    dict(name='defaults of the base message spelled with dict()', edits=[
        (_M, _BASE_DEF, "    _schema   = dict(fwd=bool)\n    _defaults = dict(fwd=False)\n")]),
    dict(name='RPC request names the forward flag at the construction site', edits=[
        (_M, _REQ_DEF, _REQ_DEF.replace("'fwd'      : True", "'fwd'      : False")),
        (_C, "        rpc_req = RPCRequestMessage(uid=rpc_id, cmd=cmd, addr=rpc_addr,\n                                    args=args, kwargs=kwargs)\n\n        self._rpc_reqs[rpc_id] = {\n                'req': rpc_req,\n                'res': None,\n                'evt': mt.Event(),",
             "        rpc_req = RPCRequestMessage(uid=rpc_id, cmd=cmd, addr=rpc_addr,\n                                    args=args, kwargs=kwargs, fwd=True)\n\n        self._rpc_reqs[rpc_id] = {\n                'req': rpc_req,\n                'res': None,\n                'evt': mt.Event(),"),
        ('pilot.py', "        rpc_req = RPCRequestMessage(uid=rpc_id, cmd=cmd, addr=rpc_addr,\n                                    args=args, kwargs=kwargs)", "        rpc_req = RPCRequestMessage(uid=rpc_id, cmd=cmd, addr=rpc_addr,\n                                    fwd=True, args=args, kwargs=kwargs)")]),
    dict(name='forwarder split into one predicate per wire direction (seed C16-r5)', edits=[
        (_S, _FWD_OLD, _FWD_R5)]),
    dict(name='predicate per wire selected by a conditional expression', edits=[
        (_S, _FWD_OLD, _FWD_R5.replace(_ACCEPT_SEL, "        accept = accept_from_proxy if from_proxy else accept_to_proxy\n"))]),
    dict(name='predicate per wire selected in early-exit form (negated test)', edits=[
        (_S, _FWD_OLD, _FWD_R5.replace(_ACCEPT_SEL, "        if not from_proxy:\n            accept = accept_to_proxy\n        else:\n            accept = accept_from_proxy\n"))]),
    dict(name='predicates called directly under the direction test, verdict in a local', edits=[
        (_S, _FWD_OLD, _FWD_R5.replace(_ACCEPT_SEL, "").replace(_ACCEPT_USE, "            if from_proxy:\n                ok = accept_from_proxy(msg, module, self._log)\n            else:\n                ok = accept_to_proxy(msg, module, self._log)\n            if ok:\n                publisher.put(tgt, msg)\n"))]),
    dict(name='predicate verdict negated with early return', edits=[
        (_S, _FWD_OLD, _FWD_R5.replace(_ACCEPT_USE, "            if not accept(msg, module, self._log):\n                return\n            publisher.put(tgt, msg)\n"))]),
    dict(name='table driven wiring of the four forwarders (seed C16-r5)', edits=[
        (_S, _WIRE_OLD, _WIRE_R5)]),
    dict(name='table driven wiring with explicit direction flags in the table', edits=[
        (_S, _WIRE_OLD, "        for src, tgt, back in [(rpc.CONTROL_PUBSUB, rpc.PROXY_CONTROL_PUBSUB, False),\n                               (rpc.PROXY_CONTROL_PUBSUB, rpc.CONTROL_PUBSUB, True),\n                               (rpc.STATE_PUBSUB, rpc.PROXY_STATE_PUBSUB, False),\n                               (rpc.PROXY_STATE_PUBSUB, rpc.STATE_PUBSUB, True)]:\n            self.crosswire_pubsub(src, tgt, from_proxy=back)\n\n\n")]),
]


# ------------------------------------------------------------------------------
# R16.7 / R16.8 / callback chosen at wiring time (seeds C16-g1, C16-g6, C16-r7)
#
_X = 'proxy.py'
_FROM_CMP = "                if msg['origin'] == self._module:\n                    if LOG_ENABLED:\n                        self._log.debug_9('XXX >=! fwd"
_TO_CMP = "                if not msg['origin'] == self._module:"
_PX_TABLE = "            cfg = {'proxy_control_pubsub': {'addr_pub': str(proxy_cp.addr_pub),\n                                            'addr_sub': str(proxy_cp.addr_sub)},\n                    'proxy_state_pubsub' : {'addr_pub': str(proxy_sp.addr_pub),\n                                            'addr_sub': str(proxy_sp.addr_sub)},\n                    'proxy_task_queue'   : {'addr_put': str(proxy_tq.addr_put),\n                                            'addr_get': str(proxy_tq.addr_get)}}\n"
_PX_STATE = "                    'proxy_state_pubsub' : {'addr_pub': str(proxy_sp.addr_pub),\n                                            'addr_sub': str(proxy_sp.addr_sub)},\n"
_PX_CTRL = "            cfg = {'proxy_control_pubsub': {'addr_pub': str(proxy_cp.addr_pub),\n                                            'addr_sub': str(proxy_cp.addr_sub)},\n"
_PX_WORKER = "    # --------------------------------------------------------------------------\n    #\n    def _worker(self, sid, q, term, path):\n"
_FWD_R7 = "        module = self._module\n        log    = self._log\n\n        def mark_origin(msg):\n\n            if 'origin' not in msg:\n                msg['origin'] = module\n\n            return msg['origin']\n\n\n        def fwd_from_proxy(topic, msg):\n\n            # all messages *from* the proxy are forwarded - but not the ones\n            # which originated in *this* module in the first place.\n\n            if mark_origin(msg) == module:\n                if LOG_ENABLED:\n                    log.debug_9('XXX >=! fwd %s to topic:%s: %s', src, tgt, msg)\n                return\n\n            if LOG_ENABLED:\n                log.debug_9('XXX >=> fwd %s to topic:%s: %s', src, tgt, msg)\n\n            publisher.put(tgt, msg)\n\n\n        def fwd_to_proxy(topic, msg):\n\n            origin = mark_origin(msg)\n\n            # only forward messages which have the respective flag set\n            if not msg.get('fwd'):\n                if LOG_ENABLED:\n                    log.debug_9('XXX =>! fwd %s to %s: %s [%s - %s]',\n                                src, tgt, msg, origin, module)\n                return\n\n            # only forward all messages which originated in *this* module.\n            if origin != module:\n                if LOG_ENABLED:\n                    log.debug_9('XXX =>| fwd %s to topic:%s: %s', src, tgt, msg)\n                return\n\n            log.debug_9('XXX =>> fwd %s to topic:%s: %s', src, tgt, msg)\n\n            # avoid message loops (forward only once)\n            msg['fwd'] = False\n\n            if LOG_ENABLED:\n                log.debug_3('XXX =>> fwd %s to topic:%s: %s', src, tgt, msg)\n\n            publisher.put(tgt, msg)\n\n\n        # the direction is fixed at wiring time\n        if from_proxy: pubsub_fwd = fwd_from_proxy\n        else         : pubsub_fwd = fwd_to_proxy\n\n"
_R7_SEL = "        if from_proxy: pubsub_fwd = fwd_from_proxy\n        else         : pubsub_fwd = fwd_to_proxy\n"

MUTATIONS += [
    dict(name='R16.7 seed C16-g1: proxy->local own-origin test compares with the session id', rules=('R16.7',), edits=[
        (_S, _FROM_CMP, _FROM_CMP.replace('self._module', 'self._uid'))]),
    dict(name='R16.7 local->proxy own-origin test compares with the session id', rules=('R16.7',), edits=[
        (_S, _TO_CMP, "                if not msg['origin'] == self._uid:")]),
    dict(name='R16.7 own-origin test in Yoda form against the session role', rules=('R16.7',), edits=[
        (_S, _TO_CMP, "                if self._role != msg['origin']:")]),
    dict(name='R16.7 untagged messages are stamped with the session id, compared with the module', rules=('R16.7',), edits=[
        (_S, _TAG, "            if 'origin' not in msg:\n                msg['origin'] = self._uid\n")]),
    dict(name='R16.7 proxy->local test against a constant side name', rules=('R16.7',), edits=[
        (_S, _FROM_CMP, _FROM_CMP.replace('self._module', "'client'"))]),
    dict(name='R16.7 wrong attribute cached in a local of the callback', rules=('R16.7',), edits=[
        (_S, _FROM_CMP, "                me = self._uid\n" + _FROM_CMP.replace('self._module', 'me'))]),
    dict(name='R16.7 callbacks per direction (seed C16-r7 shape): from-proxy callback compares with the session id', rules=('R16.7',), edits=[
        (_S, _FWD_OLD, _FWD_R7.replace("            if mark_origin(msg) == module:", "            if mark_origin(msg) == self._uid:"))]),
    dict(name='R16.1 callbacks per direction: bound to the wrong direction', rules=('R16.1',), edits=[
        (_S, _FWD_OLD, _FWD_R7.replace(_R7_SEL, "        if from_proxy: pubsub_fwd = fwd_to_proxy\n        else         : pubsub_fwd = fwd_from_proxy\n"))]),
    dict(name='R16.1 callbacks per direction: to-proxy callback without the forward test', rules=('R16.1',), edits=[
        (_S, _FWD_OLD, _FWD_R7.replace("            if not msg.get('fwd'):\n                if LOG_ENABLED:\n                    log.debug_9('XXX =>! fwd %s to %s: %s [%s - %s]',\n                                src, tgt, msg, origin, module)\n                return\n", ""))]),
    dict(name='R16.1 callbacks per direction: helper re-tags every message as own', rules=('R16.1',), edits=[
        (_S, _FWD_OLD, _FWD_R7.replace("            if 'origin' not in msg:\n                msg['origin'] = module\n\n            return msg['origin']", "            msg['origin'] = module\n\n            return msg['origin']"))]),
    dict(name='R16.8 seed C16-g6: state channel advertises the sub endpoint of the control bridge', rules=('R16.8',), edits=[
        (_X, _PX_STATE, _PX_STATE.replace("str(proxy_sp.addr_sub)", "str(proxy_cp.addr_sub)"))]),
    dict(name='R16.8 control channel advertises the pub endpoint of the state bridge', rules=('R16.8',), edits=[
        (_X, _PX_CTRL, _PX_CTRL.replace("str(proxy_cp.addr_pub)", "str(proxy_sp.addr_pub)"))]),
    dict(name='R16.8 pub and sub endpoints of the state bridge swapped', rules=('R16.8',), edits=[
        (_X, _PX_STATE, "                    'proxy_state_pubsub' : {'addr_pub': str(proxy_sp.addr_sub),\n                                            'addr_sub': str(proxy_sp.addr_pub)},\n")]),
    dict(name='R16.8 table filled by subscript stores, state entry from the control bridge', rules=('R16.8',), edits=[
        (_X, _PX_TABLE, "            cfg = dict()\n            cfg['proxy_control_pubsub'] = {'addr_pub': str(proxy_cp.addr_pub),\n                                           'addr_sub': str(proxy_cp.addr_sub)}\n            cfg['proxy_state_pubsub']   = {'addr_pub': str(proxy_cp.addr_pub),\n                                           'addr_sub': str(proxy_sp.addr_sub)}\n            cfg['proxy_task_queue']     = {'addr_put': str(proxy_tq.addr_put),\n                                           'addr_get': str(proxy_tq.addr_get)}\n")]),
]

SILENT += [
    dict(name='callbacks per direction chosen at wiring time, origin helper, cached identity (seed C16-r7)', edits=[
        (_S, _FWD_OLD, _FWD_R7)]),
    dict(name='callbacks per direction bound by a conditional expression', edits=[
        (_S, _FWD_OLD, _FWD_R7.replace(_R7_SEL, "        pubsub_fwd = fwd_from_proxy if from_proxy else fwd_to_proxy\n"))]),
    dict(name='callbacks per direction bound under the negated test', edits=[
        (_S, _FWD_OLD, _FWD_R7.replace(_R7_SEL, "        if not from_proxy:\n            pubsub_fwd = fwd_to_proxy\n        else:\n            pubsub_fwd = fwd_from_proxy\n"))]),
    dict(name='callbacks per direction, own test in Yoda form', edits=[
        (_S, _FWD_OLD, _FWD_R7.replace("            if mark_origin(msg) == module:", "            if module == mark_origin(msg):"))]),
    dict(name='own-origin test against a local caching the side identity', edits=[
        (_S, _FROM_CMP, "                me = self._module\n" + _FROM_CMP.replace('self._module', 'me'))]),
    dict(name='origin tag read once into a local, both directions', edits=[
        (_S, _TAG, _TAG + "            origin = msg['origin']\n"),
        (_S, _FROM_CMP, _FROM_CMP.replace("msg['origin'] == self._module", "origin == self._module")),
        (_S, _TO_CMP, "                if origin != self._module:")]),
    dict(name='side identity also kept under a second attribute bound in __init__', edits=[
        (_S, _MOD, _MOD + "        self._side   = self._module\n"),
        (_S, _FROM_CMP, _FROM_CMP.replace('self._module', 'self._side')),
        (_S, _TO_CMP, "                if not msg['origin'] == self._side:")]),
    dict(name='side identity read through a property', edits=[
        (_S, _HELPER_AT, "    @property\n    def module(self):\n        return self._module\n\n\n" + _HELPER_AT),
        (_S, _FROM_CMP, _FROM_CMP.replace('self._module', 'self.module'))]),
    dict(name='origin tag compared with a constant to select a log line only', edits=[
        (_S, _TAG, _TAG + "            if LOG_ENABLED and msg.get('origin') == 'client':\n                self._log.debug_9('XXX from client: %s', msg)\n")]),
    dict(name='proxy table: endpoints hoisted into locals', edits=[
        (_X, _PX_TABLE, "            sp_pub = str(proxy_sp.addr_pub)\n            sp_sub = str(proxy_sp.addr_sub)\n" + _PX_TABLE.replace("{'addr_pub': str(proxy_sp.addr_pub),", "{'addr_pub': sp_pub,").replace("'addr_sub': str(proxy_sp.addr_sub)}", "'addr_sub': sp_sub}"))]),
    dict(name='proxy table: filled by subscript stores, other order', edits=[
        (_X, _PX_TABLE, "            cfg = dict()\n            cfg['proxy_state_pubsub']   = {'addr_sub': str(proxy_sp.addr_sub),\n                                           'addr_pub': str(proxy_sp.addr_pub)}\n            cfg['proxy_task_queue']     = {'addr_put': str(proxy_tq.addr_put),\n                                           'addr_get': str(proxy_tq.addr_get)}\n            cfg['proxy_control_pubsub'] = {}\n            cfg['proxy_control_pubsub']['addr_pub'] = str(proxy_cp.addr_pub)\n            cfg['proxy_control_pubsub']['addr_sub'] = str(proxy_cp.addr_sub)\n")]),
    dict(name='proxy table: spelled with dict()', edits=[
        (_X, _PX_TABLE, "            cfg = dict(proxy_control_pubsub=dict(addr_pub=str(proxy_cp.addr_pub),\n                                                 addr_sub=str(proxy_cp.addr_sub)),\n                       proxy_state_pubsub=dict(addr_pub=str(proxy_sp.addr_pub),\n                                               addr_sub=str(proxy_sp.addr_sub)),\n                       proxy_task_queue=dict(addr_put=str(proxy_tq.addr_put),\n                                             addr_get=str(proxy_tq.addr_get)))\n")]),
    dict(name='proxy table: endpoint pair of a pubsub built by an extracted helper', edits=[
        (_X, _PX_WORKER, "    @staticmethod\n    def _endpoints(bridge):\n\n        return {'addr_pub': str(bridge.addr_pub),\n                'addr_sub': str(bridge.addr_sub)}\n\n\n" + _PX_WORKER),
        (_X, _PX_TABLE, "            cfg = {'proxy_control_pubsub': self._endpoints(proxy_cp),\n                   'proxy_state_pubsub'  : self._endpoints(proxy_sp),\n                   'proxy_task_queue'    : {'addr_put': str(proxy_tq.addr_put),\n                                            'addr_get': str(proxy_tq.addr_get)}}\n")]),
    dict(name='proxy table: bridge reached through a second local', edits=[
        (_X, _PX_TABLE, "            state_bridge = proxy_sp\n" + _PX_TABLE.replace("str(proxy_sp.addr_sub)", "str(state_bridge.addr_sub)"))]),
]


# ------------------------------------------------------------------------------
# R16.9 (seed C16-i5): protocol items of a reply inherited from its request
#
_RES_UID = "            from_dict['uid'] = rpc_req['uid']\n"
_RES_NEW = "            if not from_dict:\n                from_dict = dict()\n"
_RES_SUPER = "        super().__init__(from_dict, **kwargs)\n"
_RES_CTOR = "        if rpc_req:\n" + _RES_NEW + "\n" + _RES_UID + "\n" + _RES_SUPER
_RES_SITE = "        rpc_res = RPCResultMessage(rpc_req=msg, val=val, out=out, err=err, exc=exc)\n"
_RPC_AT = "    # --------------------------------------------------------------------------\n    #\n    def register_rpc_handler(self, cmd, handler, rpc_addr=None):\n"
_CLEAR = "                msg['fwd'] = False\n"

MUTATIONS += [
    dict(name='R16.9 seed C16-i5: the reply inherits the forward flag of its request', rules=('R16.9',), edits=[
        (_M, _RES_UID, _RES_UID + "            from_dict['fwd'] = rpc_req['fwd']\n")]),
    dict(name='R16.9 reply inherits the flag, read with get() and a default', rules=('R16.9',), edits=[
        (_M, _RES_UID, _RES_UID + "            from_dict['fwd'] = rpc_req.get('fwd', True)\n")]),
    dict(name='R16.9 reply inherits the flag, read as an attribute of the request', rules=('R16.9',), edits=[
        (_M, _RES_UID, "            from_dict['fwd'] = rpc_req.fwd\n" + _RES_UID)]),
    dict(name='R16.9 reply inherits the origin tag of its request', rules=('R16.9',), edits=[
        (_M, _RES_UID, _RES_UID + "            from_dict['origin'] = rpc_req.get('origin')\n")]),
    dict(name='R16.9 reply starts as a copy of all items of the request', rules=('R16.9',), edits=[
        (_M, _RES_NEW, "            if not from_dict:\n                from_dict = dict(rpc_req)\n")]),
    dict(name='R16.9 reply inherits the flag through the keyword items', rules=('R16.9',), edits=[
        (_M, _RES_UID, _RES_UID + "            kwargs['fwd'] = rpc_req['fwd']\n")]),
    dict(name='R16.9 flag of the request stored into the reply after the base constructor', rules=('R16.9',), edits=[
        (_M, _RES_SUPER, _RES_SUPER + "\n        if rpc_req:\n            self['fwd'] = rpc_req['fwd']\n")]),
    dict(name='R16.9 constructor of the reply overrides the class default with a constant', rules=('R16.9',), edits=[
        (_M, _RES_UID, _RES_UID + "            from_dict['fwd'] = False\n")]),
    dict(name='R16.9 sibling site: the handler names the flag of the request when it builds the reply', rules=('R16.9',), edits=[
        (_C, _RES_SITE, "        rpc_res = RPCResultMessage(rpc_req=msg, val=val, out=out, err=err,\n                                   exc=exc, fwd=msg['fwd'])\n")]),
    dict(name='R16.9 sibling site: the handler copies the origin tag of the request into the reply', rules=('R16.9',), edits=[
        (_C, _RES_SITE, "        rpc_res = RPCResultMessage(rpc_req=msg, val=val, out=out, err=err,\n                                   exc=exc, origin=msg.get('origin'))\n")]),
    dict(name='R16.9 reply inherits the flag, forwarder in the callbacks-per-direction shape (seed C16-r7)', rules=('R16.9',), edits=[
        (_M, _RES_UID, _RES_UID + "            from_dict['fwd'] = rpc_req['fwd']\n"),
        (_S, _FWD_OLD, _FWD_R7)]),
    dict(name='R16.9 reply inherits the flag, forwarder split into predicates per wire (seed C16-r5)', rules=('R16.9',), edits=[
        (_M, _RES_UID, _RES_UID + "            from_dict['fwd'] = rpc_req['fwd']\n"),
        (_S, _FWD_OLD, _FWD_R5)]),
]

SILENT += [
    dict(name='reply inherits the flag, but no forwarder rewrites it (the request arrives as it was published)', edits=[
        (_M, _RES_UID, _RES_UID + "            from_dict['fwd'] = rpc_req['fwd']\n"),
        (_S, _CLEAR, "")]),
    dict(name='reply constructor names the class default explicitly', edits=[
        (_M, _RES_UID, _RES_UID + "            from_dict['fwd'] = True\n")]),
    dict(name='reply constructor: uid added with dict(), guard in one expression', edits=[
        (_M, _RES_CTOR, "        if rpc_req:\n            from_dict = dict(from_dict or {}, uid=rpc_req['uid'])\n\n" + _RES_SUPER)]),
    dict(name='reply constructor: uid handed over as a keyword item', edits=[
        (_M, _RES_CTOR, "        if rpc_req:\n            kwargs['uid'] = rpc_req['uid']\n\n" + _RES_SUPER)]),
    dict(name='reply constructor: uid read as an attribute, early form of the guard', edits=[
        (_M, _RES_CTOR, "        if not rpc_req:\n            super().__init__(from_dict, **kwargs)\n            return\n\n        items = dict(from_dict) if from_dict else dict()\n        items['uid'] = rpc_req.uid\n\n        super().__init__(items, **kwargs)\n")]),
    dict(name='reply constructor: base class constructor called by name', edits=[
        (_M, _RES_SUPER, "        RPBaseMessage.__init__(self, from_dict, **kwargs)\n")]),
    dict(name='reply constructor: uid stored after the base constructor', edits=[
        (_M, _RES_CTOR, "        super().__init__(from_dict, **kwargs)\n\n        if rpc_req:\n            self['uid'] = rpc_req['uid']\n")]),
    dict(name='reply constructor: copy of the uid extracted into a helper', edits=[
        (_M, _RES_CTOR, "        from_dict = self._reply_items(rpc_req, from_dict)\n\n" + _RES_SUPER +
             "\n\n    # --------------------------------------------------------------------------\n    #\n    @staticmethod\n    def _reply_items(rpc_req, items):\n\n        if not rpc_req:\n            return items\n\n        items = dict(items or {})\n        items['uid'] = rpc_req['uid']\n\n        return items\n")]),
    dict(name='reply built with the request as positional argument and the flag named', edits=[
        (_C, _RES_SITE, "        rpc_res = RPCResultMessage(msg, val=val, out=out, err=err, exc=exc,\n                                   fwd=True)\n")]),
    dict(name='reply built in an extracted helper of the component', edits=[
        (_C, _RES_SITE, "        rpc_res = self._rpc_reply(msg, val, out, err, exc)\n"),
        (_C, _RPC_AT, "    # --------------------------------------------------------------------------\n    #\n    def _rpc_reply(self, req, val, out, err, exc):\n\n        return RPCResultMessage(rpc_req=req, val=val, out=out, err=err, exc=exc)\n\n\n" + _RPC_AT)]),
]


# ------------------------------------------------------------------------------
# round 6: the seeds C16-i1 .. i6 and the same slips at sibling sites
#
_I1_FROM = "                        self._log.debug_9('XXX >=! fwd %s to topic:%s: %s',\n                                          src, tgt, msg)\n                    return\n"
_I1_FLAG = "                                          self._module)\n                    return\n"
_I1_ORIG = "                        self._log.debug_9('XXX =>| fwd %s to topic:%s: %s',\n                                          src, tgt, msg)\n                    return\n"
_I1_PUT = "                    self._log.debug_3('XXX =>> fwd %s to topic:%s: %s',\n                                      src, tgt, msg)\n                publisher.put(tgt, msg)\n"
_ADV_CALL = "        super().advance(things=things, state=state, publish=publish, push=push,\n                        qname=qname, ts=ts, fwd=fwd, prof=prof)\n"
_ADV_NOFWD = "        super().advance(things=things, state=state, publish=publish, push=push,\n                        qname=qname, ts=ts, prof=prof)\n"
_CLI_BR = "            publish = True\n            push    = False\n\n"
_CLI_TAIL = "\n\n# ------------------------------------------------------------------------------\n#\nclass AgentComponent"
_AG_BR = "              #     thing['state'] = state\n\n            publish = True\n            push    = False\n\n"
_W_CTRL_UP = "        self.crosswire_pubsub(src=rpc.CONTROL_PUBSUB,\n                              tgt=rpc.PROXY_CONTROL_PUBSUB,\n                              from_proxy=False)\n"
_W_CTRL_DN = "        self.crosswire_pubsub(src=rpc.PROXY_CONTROL_PUBSUB,\n                              tgt=rpc.CONTROL_PUBSUB,\n                              from_proxy=True)\n"
_W_STATE_UP = "        self.crosswire_pubsub(src=rpc.STATE_PUBSUB,\n                              tgt=rpc.PROXY_STATE_PUBSUB,\n                              from_proxy=False)\n"
_W_STATE_DN = "        self.crosswire_pubsub(src=rpc.PROXY_STATE_PUBSUB,\n                              tgt=rpc.STATE_PUBSUB,\n                              from_proxy=True)\n"


def _under(cond, block):
    return "        if %s:\n" % cond + ''.join(
        '    ' + l + '\n' for l in block.splitlines())


MUTATIONS += [
    # i1: a statement moved into a block by indentation
    dict(name='R16.1 seed C16-i1: return of the own-origin guard (from proxy) indented under the log switch', rules=('R16.1',), edits=[
        (_S, _I1_FROM, _I1_FROM.replace("                    return\n", "                        return\n"))]),
    dict(name='R16.1 return of the no-flag guard (to proxy) indented under the log switch', rules=('R16.1',), edits=[
        (_S, _I1_FLAG, _I1_FLAG.replace("                    return\n", "                        return\n"))]),
    dict(name='R16.1 return of the foreign-origin guard (to proxy) indented under the log switch', rules=('R16.1',), edits=[
        (_S, _I1_ORIG, _I1_ORIG.replace("                    return\n", "                        return\n"))]),
    dict(name='R16.1 put on the proxy channel indented under the log switch', rules=('R16.1',), edits=[
        (_S, _I1_PUT, _I1_PUT.replace("                publisher.put(tgt, msg)\n", "                    publisher.put(tgt, msg)\n"))]),
    # i2: two names swapped
    dict(name='R16.8 seed C16-i2 at the sibling entry: control channel advertises the sub endpoint of the state bridge', rules=('R16.8',), edits=[
        (_X, _PX_CTRL, _PX_CTRL.replace("str(proxy_cp.addr_sub)", "str(proxy_sp.addr_sub)"))]),
    dict(name='R16.2 publisher address looked up for the source channel', rules=('R16.2',), edits=[
        (_S, "        url_pub = reg['bridges.%s.addr_pub' % tgt.lower()]", "        url_pub = reg['bridges.%s.addr_pub' % src.lower()]")]),
    dict(name='R16.2 publisher created on the source channel', rules=('R16.2',), edits=[
        (_S, "        publisher = ru.zmq.Publisher(channel=tgt, path=path, url=url_pub,", "        publisher = ru.zmq.Publisher(channel=src, path=path, url=url_pub,")]),
    # i3: an argument dropped
    dict(name='R16.3 seed C16-i3: agent advance no longer passes fwd to the base class', rules=('R16.3',), edits=[
        (_C, _AG_BR + _ADV_CALL, _AG_BR + _ADV_NOFWD)]),
    dict(name='R16.3 client advance no longer passes fwd to the base class', rules=('R16.3',), edits=[
        (_C, _CLI_BR + _ADV_CALL + _CLI_TAIL, _CLI_BR + _ADV_NOFWD + _CLI_TAIL)]),
    dict(name='R16.3 agent advance calls the base positionally, fwd left out', rules=('R16.3',), edits=[
        (_C, _AG_BR + _ADV_CALL, _AG_BR + "        super().advance(things, state, publish, push, qname, ts, prof=prof)\n")]),
    # i4: wiring that is right for the common case only
    dict(name='seed C16-i4: state uplink only wired for agent_0 sessions', rules=('R16.5',), edits=[
        (_S, _W_STATE_UP, _under("self._role == self._AGENT_0", _W_STATE_UP))]),
    dict(name='control uplink only wired for the primary session', rules=('R16.5',), edits=[
        (_S, _W_CTRL_UP, _under("self._role == self._PRIMARY", _W_CTRL_UP))]),
    dict(name='state downlink only wired for the primary session', rules=('R16.5',), edits=[
        (_S, _W_STATE_DN, _under("self._role == self._PRIMARY", _W_STATE_DN))]),
    dict(name='state channel not wired for the primary session (early return)', rules=('R16.5',), edits=[
        (_S, _W_CTRL_DN + "\n", _W_CTRL_DN + "\n        if self._role != self._AGENT_0:\n            return\n\n")]),
    # i6: the flag of the caller overridden for particular states
    dict(name='R16.3 seed C16-i6: client advance forces fwd for FAILED / CANCELED', rules=('R16.3',), edits=[
        (_C, _CLI_BR + _ADV_CALL + _CLI_TAIL, "            publish = True\n            push    = False\n            fwd     = True\n\n" + _ADV_CALL + _CLI_TAIL)]),
    dict(name='R16.3 agent advance forces fwd for FAILED / CANCELED', rules=('R16.3',), edits=[
        (_C, _AG_BR + _ADV_CALL, "              #     thing['state'] = state\n\n            publish = True\n            push    = False\n            fwd     = True\n\n" + _ADV_CALL)]),
    dict(name='R16.3 base advance forwards every update of a final state', rules=('R16.3',), edits=[
        (_C, "                                            'arg': to_publish,\n                                            'fwd': fwd})",
             "                                            'arg': to_publish,\n                                            'fwd': fwd or state in rps.FINAL})")]),
    dict(name='R16.3 client advance keeps unpushed updates local (flag cleared when push is off)', rules=('R16.3',), edits=[
        (_C, _CLI_BR + _ADV_CALL + _CLI_TAIL, _CLI_BR + "        if not push:\n            fwd = False\n\n" + _ADV_CALL + _CLI_TAIL)]),
]

from .c14 import corpus_variants          # noqa: E402
SILENT += corpus_variants('C16')
